import Peppi.Bytes
import Peppi.VersionProof
/-! Generic, table-driven model of the generated per-struct row codecs
    (`read_push`, `write`, `size`), and the theory that C01/C03/C13 instantiate. -/
namespace Peppi

/-- one flattened leaf of a generated struct -/
structure Fld where
  id : Nat                    -- leaf id (position in the flattened struct)
  width : Nat                 -- bytes
  gates : List (Nat × Nat)    -- conjunction of the enclosing `version.gte(a, b)`
deriving DecidableEq, Repr

def visible (v : Ver) (f : Fld) : Bool := f.gates.all (fun g => v.gte g.1 g.2)

/-- `read_push` for one row: values in field order, rest of the payload -/
def readRow (v : Ver) : List Fld → Bytes → Option (List Nat × Bytes)
  | [], bs => some ([], bs)
  | f :: fs, bs =>
    if visible v f then
      if bs.length < f.width then none
      else match readRow v fs (bs.drop f.width) with
        | none => none
        | some (vals, rest) => some (fromBE (bs.take f.width) :: vals, rest)
    else readRow v fs bs

/-- `write` for one row -/
def writeRow (v : Ver) : List Fld → List Nat → Bytes
  | [], _ => []
  | f :: fs, vals =>
    if visible v f then
      match vals with
      | [] => []
      | x :: xs => toBE f.width x ++ writeRow v fs xs
    else writeRow v fs vals

/-- `size` -/
def rowSize (v : Ver) : List Fld → Nat
  | [] => 0
  | f :: fs => (if visible v f then f.width else 0) + rowSize v fs

def RowOK (v : Ver) : List Fld → List Nat → Prop
  | [], vals => vals = []
  | f :: fs, vals =>
    if visible v f then ∃ x xs, vals = x :: xs ∧ x < 256 ^ f.width ∧ RowOK v fs xs
    else RowOK v fs vals

theorem read_write (v : Ver) (L : List Fld) (vals : List Nat) (rest : Bytes) (h : RowOK v L vals) :
    readRow v L (writeRow v L vals ++ rest) = some (vals, rest) := by
  induction L generalizing vals with
  | nil => simp [RowOK] at h; simp [readRow, writeRow, h]
  | cons f fs ih =>
    unfold RowOK at h
    by_cases hv : visible v f
    · simp only [hv, ↓reduceIte] at h
      obtain ⟨x, xs, rfl, hx, hxs⟩ := h
      simp only [readRow, writeRow, hv, ↓reduceIte, List.append_assoc]
      have hl : (toBE f.width x).length = f.width := toBE_length _ _
      have : ¬ ((toBE f.width x ++ (writeRow v fs xs ++ rest)).length < f.width) := by simp [hl]
      simp only [this, ↓reduceIte]
      rw [List.drop_left' hl, List.take_left' hl, ih xs hxs, fromBE_toBE _ _ hx]
    · simp only [hv] at h
      simp [readRow, writeRow, hv, ih vals h]

theorem write_read (v : Ver) (L : List Fld) (bs : Bytes) (vals : List Nat) (rest : Bytes)
    (h : readRow v L bs = some (vals, rest)) :
    writeRow v L vals ++ rest = bs ∧ RowOK v L vals := by
  induction L generalizing bs vals with
  | nil => simp [readRow] at h; simp [writeRow, RowOK, h]
  | cons f fs ih =>
    by_cases hv : visible v f
    · simp only [readRow, hv, ↓reduceIte] at h
      split at h
      · simp at h
      · rename_i hlen
        split at h
        · simp at h
        · rename_i vals' rest' heq
          simp only [Option.some.injEq, Prod.mk.injEq] at h
          obtain ⟨rfl, rfl⟩ := h
          obtain ⟨h1, h2⟩ := ih _ _ heq
          have hlt : (bs.take f.width).length = f.width := by simp; omega
          refine ⟨?_, ?_⟩
          · simp only [writeRow, hv, ↓reduceIte, List.append_assoc, h1]
            have := toBE_fromBE (bs.take f.width)
            rw [hlt] at this
            rw [this, List.take_append_drop]
          · unfold RowOK; simp only [hv, ↓reduceIte]
            refine ⟨_, _, rfl, ?_, h2⟩
            have := fromBE_lt (bs.take f.width); rwa [hlt] at this
    · simp only [readRow, hv] at h
      obtain ⟨h1, h2⟩ := ih _ _ h
      refine ⟨by simp [writeRow, hv, h1], ?_⟩
      unfold RowOK; simp [hv, h2]

theorem writeRow_length (v : Ver) (L : List Fld) (vals : List Nat) (h : RowOK v L vals) :
    (writeRow v L vals).length = rowSize v L := by
  induction L generalizing vals with
  | nil => simp [writeRow, rowSize]
  | cons f fs ih =>
    unfold RowOK at h
    by_cases hv : visible v f
    · simp only [hv, ↓reduceIte] at h
      obtain ⟨x, xs, rfl, _, hxs⟩ := h
      simp [writeRow, rowSize, hv, toBE_length, ih xs hxs]
    · simp only [hv] at h
      simp [writeRow, rowSize, hv, ih vals h]

/-- a payload at least as long as the row is always readable, and the reader consumes exactly `rowSize` bytes
    (this is why longer payloads of newer versions do not disturb known fields, C08) -/
theorem readRow_ok (v : Ver) (L : List Fld) (bs : Bytes) (h : rowSize v L ≤ bs.length) :
    ∃ vals, readRow v L bs = some (vals, bs.drop (rowSize v L)) := by
  induction L generalizing bs with
  | nil => exact ⟨[], by simp [readRow, rowSize]⟩
  | cons f fs ih =>
    by_cases hv : visible v f
    · simp only [rowSize, hv, ↓reduceIte] at h
      obtain ⟨vals, hvals⟩ := ih (bs.drop f.width) (by simp; omega)
      refine ⟨fromBE (bs.take f.width) :: vals, ?_⟩
      have : ¬ bs.length < f.width := by omega
      simp [readRow, rowSize, hv, this, hvals, Nat.add_comm]
    · simp only [rowSize, hv] at h
      obtain ⟨vals, hvals⟩ := ih bs (by simpa using h)
      exact ⟨vals, by simp [readRow, rowSize, hv, hvals]⟩

/-! ### offsets: with monotone gates, a visible field sits at its constant spec offset -/

def leqGate (a b : Nat × Nat) : Bool := decide (a.1 < b.1) || (a.1 == b.1 && decide (a.2 ≤ b.2))

/-- decidable check on a table: every gate of a field is implied by some gate of the next field -/
def gatesMonotone : List Fld → Bool
  | [] => true
  | [_] => true
  | a :: b :: t => a.gates.all (fun g => b.gates.any (fun g' => leqGate g g')) && gatesMonotone (b :: t)

theorem visible_of_next (v : Ver) (a b : Fld)
    (h : a.gates.all (fun g => b.gates.any (fun g' => leqGate g g')) = true) (hb : visible v b = true) : visible v a = true := by
  unfold visible at *
  rw [List.all_eq_true] at *
  intro g hg
  have := h g hg
  rw [List.any_eq_true] at this
  obtain ⟨g', hg', hle⟩ := this
  have hv := hb g' hg'
  apply Ver.gte_trans v g'.1 g'.2 g.1 g.2 _ hv
  unfold leqGate at hle; simp at hle; omega

/-- static prefix sums of widths = the spec's absolute offsets -/
def staticOffsets : List Fld → Nat → List Nat
  | [], _ => []
  | f :: fs, acc => acc :: staticOffsets fs (acc + f.width)

theorem invisible_tail (v : Ver) (a : Fld) (t : List Fld) (hm : gatesMonotone (a :: t) = true) (ha : visible v a = false) :
    ∀ f ∈ t, visible v f = false := by
  induction t generalizing a with
  | nil => simp
  | cons b t ih =>
    simp only [gatesMonotone, Bool.and_eq_true] at hm
    have hb : visible v b = false := by
      cases hvb : visible v b with
      | false => rfl
      | true => rw [visible_of_next v a b hm.1 hvb] at ha; cases ha
    intro f hf
    simp only [List.mem_cons] at hf
    rcases hf with rfl | hf
    · exact hb
    · exact ih b hm.2 hb f hf

theorem readRow_invisible (v : Ver) (L : List Fld) (bs : Bytes) (h : ∀ f ∈ L, visible v f = false) :
    readRow v L bs = some ([], bs) := by
  induction L with
  | nil => rfl
  | cons f fs ih => simp [readRow, h f (by simp), ih (fun g hg => h g (by simp [hg]))]

theorem staticOffsets_length (L : List Fld) (base : Nat) : (staticOffsets L base).length = L.length := by
  induction L generalizing base with
  | nil => rfl
  | cons f fs ih => simp [staticOffsets, ih]

theorem staticOffsets_ge (L : List Fld) (base k : Nat) (hk : k < L.length) : base ≤ (staticOffsets L base).getD k 0 := by
  induction L generalizing base k with
  | nil => simp at hk
  | cons f fs ih =>
    cases k with
    | zero => simp [staticOffsets]
    | succ k' =>
      have := ih (base + f.width) k' (by simpa using hk)
      simp only [staticOffsets, List.getD_cons_succ]; omega

theorem gatesMonotone_tail (f : Fld) (fs : List Fld) (hm : gatesMonotone (f :: fs) = true) : gatesMonotone fs = true := by
  cases fs with
  | nil => rfl
  | cons b t => simp only [gatesMonotone, Bool.and_eq_true] at hm; exact hm.2

/-- C03 core: the k-th field, when visible, is the big-endian value of the bytes at its static offset,
    and it is the k-th value read (no earlier field is skipped). -/
theorem readRow_field (v : Ver) (L : List Fld) (hm : gatesMonotone L = true) (bs : Bytes) (vals : List Nat) (rest : Bytes)
    (h : readRow v L bs = some (vals, rest)) (base : Nat) (k : Nat) (hk : k < L.length) (hvis : visible v L[k] = true) :
    vals[k]? = some (fromBE ((bs.drop ((staticOffsets L base).getD k 0 - base)).take L[k].width)) := by
  induction L generalizing bs vals base k with
  | nil => simp at hk
  | cons f fs ih =>
    cases hv : visible v f with
    | true =>
      simp only [readRow, hv, ↓reduceIte] at h
      split at h
      · simp at h
      · split at h
        · simp at h
        · rename_i vals' rest' heq
          simp only [Option.some.injEq, Prod.mk.injEq] at h
          obtain ⟨rfl, rfl⟩ := h
          cases k with
          | zero => simp [staticOffsets]
          | succ k' =>
            have hk' : k' < fs.length := by simpa using hk
            have := ih (gatesMonotone_tail f fs hm) (bs.drop f.width) vals' heq (base + f.width) k' hk' (by simpa using hvis)
            simp only [List.getElem?_cons_succ, List.getElem_cons_succ, staticOffsets, List.getD_cons_succ]
            rw [this]
            have hge := staticOffsets_ge fs (base + f.width) k' hk'
            simp only [List.drop_drop]
            have : f.width + ((staticOffsets fs (base + f.width)).getD k' 0 - (base + f.width)) = (staticOffsets fs (base + f.width)).getD k' 0 - base := by omega
            rw [this]
    | false =>
      cases k with
      | zero => simp [hv] at hvis
      | succ k' =>
        have := invisible_tail v f fs hm hv (fs[k']'(by simpa using hk)) (List.getElem_mem _)
        simp only [List.getElem_cons_succ] at hvis
        rw [this] at hvis; cases hvis

/-- …and an invisible field contributes no value: the row has exactly the visible prefix -/
theorem readRow_count (v : Ver) (L : List Fld) (bs : Bytes) (vals : List Nat) (rest : Bytes)
    (h : readRow v L bs = some (vals, rest)) : vals.length = (L.filter (visible v)).length := by
  induction L generalizing bs vals with
  | nil => simp [readRow] at h; simp [h]
  | cons f fs ih =>
    cases hv : visible v f with
    | true =>
      simp only [readRow, hv, ↓reduceIte] at h
      split at h
      · simp at h
      · split at h
        · simp at h
        · rename_i vals' rest' heq
          simp only [Option.some.injEq, Prod.mk.injEq] at h
          obtain ⟨rfl, rfl⟩ := h
          simp [List.filter_cons, hv, ih _ _ heq]
    | false =>
      simp only [readRow, hv] at h
      simp [List.filter_cons, hv, ih _ _ h]

#print axioms readRow_field
end Peppi
