import Peppi.Start
/-! Canonical JSON text of `game::Start` / `game::End` as serde renders them (declaration order,
    `skip_serializing_if = "Option::is_none"`), with f32 as `"f:<bits>"`, Shift-JIS fields as `"sjis:<hex slice>"`
    and UTF-8 fields as `"utf8:<hex>"` (externals are applied by the harness). -/
namespace Peppi

def hex2 (b : UInt8) : String := String.ofList (Nat.toDigits 16 (b.toNat + 256)).tail
def hexOf (bs : Bytes) : String := String.join (bs.map hex2)
def jArr (xs : List String) : String := "[" ++ ",".intercalate xs ++ "]"
def jObj (kvs : List (String × String)) : String := "{" ++ ",".intercalate (kvs.map fun kv => "\"" ++ kv.1 ++ "\":" ++ kv.2) ++ "}"
def jStr (s : String) : String := "\"" ++ s ++ "\""
def jF (bits : Nat) : String := jStr s!"f:{bits}"
def jI8 (n : Nat) : String := toString (if n < 128 then (n : Int) else (n : Int) - 256)
def jBool (b : Bool) : String := if b then "true" else "false"
def jOptKV (k : String) (o : Option String) : List (String × String) := match o with | some v => [(k, v)] | none => []
def jNull : String := "null"

def portName (p : Nat) : String := jStr s!"P{p + 1}"
def typeName : Nat → String | 0 => jStr "Human" | 1 => jStr "Cpu" | _ => jStr "Demo"
def ucfName : Option Nat → String | none => jNull | some 1 => jStr "Ucf" | some _ => jStr "Arduino"

def playerJson (p : Player) : String :=
  jObj ([("port", portName p.port), ("character", toString p.character), ("type", typeName p.type), ("stocks", toString p.stocks),
    ("costume", toString p.costume),
    ("team", match p.team with | some t => jObj [("color", toString t.color), ("shade", toString t.shade)] | none => jNull),
    ("handicap", toString p.handicap), ("bitfield", toString p.bitfield),
    ("cpu_level", match p.cpuLevel with | some l => toString l | none => jNull),
    ("offense_ratio", jF p.offenseRatio), ("defense_ratio", jF p.defenseRatio), ("model_scale", jF p.modelScale)] ++
    jOptKV "ucf" (p.ucf.map fun u => jObj [("dash_back", ucfName u.dashBack), ("shield_drop", ucfName u.shieldDrop)]) ++
    jOptKV "name_tag" (p.nameTag.map fun s => jStr ("sjis:" ++ hexOf s)) ++
    jOptKV "netplay" (p.netplay.map fun n => jObj ([("name", jStr ("sjis:" ++ hexOf n.name)), ("code", jStr ("sjis:" ++ hexOf n.code))] ++
      jOptKV "suid" (n.suid.map fun s => jStr ("utf8:" ++ hexOf s)))))

/-- `#[derive(Serialize)] struct Start` -/
def startJson (s : Start) : String :=
  jObj ([("slippi", jObj [("version", jArr [toString s.version.major, toString s.version.minor, toString s.version.patch])]),
    ("bitfield", jArr (s.bitfield.map fun b => toString b.toNat)),
    ("is_raining_bombs", jBool s.isRainingBombs), ("is_teams", jBool s.isTeams),
    ("item_spawn_frequency", jI8 s.itemSpawnFrequency), ("self_destruct_score", jI8 s.selfDestructScore),
    ("stage", toString s.stage), ("timer", toString s.timer),
    ("item_spawn_bitfield", jArr (s.itemSpawnBitfield.map fun b => toString b.toNat)),
    ("damage_ratio", jF s.damageRatio), ("players", jArr (s.players.map playerJson)), ("random_seed", toString s.randomSeed)] ++
    jOptKV "is_pal" (s.isPal.map jBool) ++ jOptKV "is_frozen_ps" (s.isFrozenPs.map jBool) ++
    jOptKV "scene" (s.scene.map fun sc => jObj [("minor", toString sc.1), ("major", toString sc.2)]) ++
    jOptKV "language" (s.language.map fun l => if l = 0 then jStr "Japanese" else jStr "English") ++
    jOptKV "match" (s.match_.map fun m => jObj [("id", jStr ("utf8:" ++ hexOf m.id)), ("game", toString m.game), ("tiebreaker", toString m.tiebreaker)]))

def methodName : Nat → String | 0 => "Unresolved" | 1 => "Time" | 2 => "Game" | 3 => "Resolved" | _ => "NoContest"

/-- `#[derive(Serialize)] struct End` -/
def endJson (e : End) : String :=
  jObj ([("method", jStr (methodName e.method))] ++
    jOptKV "lras_initiator" (e.lrasInitiator.map fun o => match o with | some p => portName p | none => jNull) ++
    jOptKV "players" (e.players.map fun ps => jArr (ps.map fun p => jObj [("port", portName p.port), ("placement", toString p.placement)])))

end Peppi
