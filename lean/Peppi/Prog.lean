import Peppi.Stream
/-! **Programs over a byte source.**  `Prog α` is the syntax of a reader whose only interaction with its source is
    `read_exact(n)` (and the forward skip of the skip-frames option): what `peppi::io::slippi::read` and the incremental API are
    over an arbitrary `R: Read`.  A program has two semantics:

    * `Prog.run` over a flat byte string — this is the reader model `Rd` that all file-level theorems are about;
    * `Prog.runS` over a source that hands out its bytes in arbitrary pieces (`Stream`) behind the hashing wrapper of
      `io/mod.rs` (`HashingReader`: every piece a `read` call returns is fed to the hasher).

    `Prog.frag` relates the two **for every program and every fragmentation**: same result, same remaining bytes, and the hasher
    has been fed exactly the bytes consumed.  `ReadProg.lean` then shows that the reader model *is* such a program
    (`readProg.run = readP`), which lifts every theorem about `readP`/`readSlp` to arbitrary short-read behaviour of the
    source (C11, C12). -/
namespace Peppi

inductive Prog (α : Type) : Type where
  | done (a : α) : Prog α
  | fail (e : String) : Prog α
  | panic (p : String) : Prog α
  /-- `read_exact(n)`, continue with the bytes -/
  | take (n : Nat) (k : Bytes → Prog α) : Prog α
  /-- move forward by `n` bytes (or to the end of the source if it is shorter): `seek(Current(n))`, or the hashed
      `io::copy(take(n))` — no EOF error -/
  | skip (n : Nat) (k : Prog α) : Prog α

namespace Prog

def bind {α β} : Prog α → (α → Prog β) → Prog β
  | done a, f => f a
  | fail e, _ => fail e
  | panic p, _ => panic p
  | take n k, f => take n (fun b => (k b).bind f)
  | skip n k, f => skip n (k.bind f)

instance : Monad Prog where
  pure := done
  bind := bind

def lift {α} : Res α → Prog α
  | .ok a => done a
  | .err e => fail e
  | .panic p => panic p

def u8 : Prog Nat := take 1 (fun b => done ((b.headD 0).toNat))
def be (n : Nat) : Prog Nat := take n (fun b => done (fromBE b))

/-- semantics over a flat byte string -/
def run {α} : Prog α → Rd α
  | done a, bs => .ok (a, bs)
  | fail e, _ => .err e
  | panic p, _ => .panic p
  | take n k, bs => if bs.length < n then .err "eof" else (k (bs.take n)).run (bs.drop n)
  | skip n k, bs => k.run (bs.drop n)

theorem run_bind {α β} (p : Prog α) (f : α → Prog β) : (p >>= f).run = (p.run >>= fun a => (f a).run) := by
  show (p.bind f).run = _
  induction p with
  | done a => funext bs; rfl
  | fail e => funext bs; rfl
  | panic x => funext bs; rfl
  | take n k ih =>
    funext bs
    simp only [Prog.bind, run]
    by_cases h : bs.length < n
    · simp [h, Bind.bind]
    · simp only [h, ↓reduceIte, ih]
      simp [Bind.bind, h]
  | skip n k ih =>
    funext bs
    simp only [Prog.bind, run, ih]
    simp [Bind.bind]

@[simp] theorem run_pure {α} (a : α) : (pure a : Prog α).run = (pure a : Rd α) := by funext bs; rfl
@[simp] theorem run_done {α} (a : α) : (done a : Prog α).run = (pure a : Rd α) := by funext bs; rfl
@[simp] theorem run_fail {α} (e : String) : (fail e : Prog α).run = Rd.fail e := by funext bs; rfl
@[simp] theorem run_lift {α} (r : Res α) : (lift r).run = Rd.lift r := by funext bs; cases r <;> rfl
@[simp] theorem run_u8 : u8.run = Rd.u8 := by
  funext bs
  cases bs with
  | nil => simp [u8, run, Rd.u8]
  | cons b t => simp [u8, run, Rd.u8]
@[simp] theorem run_be (n : Nat) : (be n).run = Rd.be n := by
  funext bs; simp only [be, run, Rd.be, Rd.take, Bind.bind, pure]; split <;> rfl
theorem run_take (n : Nat) : (take n done).run = Rd.take n := by
  funext bs; simp only [run, Rd.take]

/-! ### the fragmenting, hashing source -/

/-- a source behind `HashingReader`: the pieces still to come, and the bytes fed to the hasher so far (`none`: not hashing) -/
structure HSrc where
  pieces : Stream
  fed : Option Bytes

/-- move forward by up to `n` bytes over the pieces -/
def dropS : Nat → Stream → Stream
  | 0, s => s
  | _+1, [] => []
  | n+1, c :: cs => if n + 1 ≤ c.length then c.drop (n + 1) :: cs else dropS (n + 1 - c.length) cs
termination_by n s => s.length

theorem dropS_flat : ∀ (s : Stream) (n : Nat), (dropS n s).flatten = s.flatten.drop n := by
  intro s
  induction s with
  | nil => intro n; cases n <;> simp [dropS]
  | cons c cs ih =>
    intro n
    cases n with
    | zero => simp [dropS]
    | succ n =>
      rw [dropS]
      by_cases hle : n + 1 ≤ c.length
      · simp only [hle, ↓reduceIte, List.flatten_cons]
        rw [List.drop_append_of_le_length hle]
      · simp only [hle, ↓reduceIte, List.flatten_cons]
        rw [ih, List.drop_append, List.drop_eq_nil_of_le (show c.length ≤ n + 1 by omega), List.nil_append]

/-- semantics over a fragmenting source with the hashing wrapper -/
def runS {α} : Prog α → HSrc → Res (α × HSrc)
  | done a, h => .ok (a, h)
  | fail e, _ => .err e
  | panic p, _ => .panic p
  | take n k, h =>
    match readExactS n h.pieces with
    | .ok (b, s') => (k b).runS ⟨s', h.fed.map (· ++ b)⟩
    | .err e => .err e
    | .panic p => .panic p
  | skip n k, h => k.runS ⟨dropS n h.pieces, h.fed.map (· ++ h.pieces.flatten.take n)⟩

/-- **Fragmentation independence, for every program.**  Over any split of the same bytes into pieces, a program returns what
    it returns on the flat byte string, leaves the same bytes unread, and the hasher has been fed exactly the bytes it
    consumed (a prefix of the input).  Errors stay errors, panics stay panics. -/
theorem frag {α} (p : Prog α) : ∀ (h : HSrc),
    (∀ a rest, p.run h.pieces.flatten = .ok (a, rest) →
      ∃ s' used, p.runS h = .ok (a, ⟨s', h.fed.map (· ++ used)⟩) ∧ s'.flatten = rest ∧ h.pieces.flatten = used ++ rest) ∧
    (∀ e, p.run h.pieces.flatten = .err e → ∃ e', p.runS h = .err e') ∧
    (∀ x, p.run h.pieces.flatten = .panic x → p.runS h = .panic x) := by
  induction p with
  | done a =>
    intro h
    refine ⟨?_, by simp [run], by simp [run]⟩
    intro a' rest hr
    simp only [run, Res.ok.injEq, Prod.mk.injEq] at hr
    obtain ⟨rfl, rfl⟩ := hr
    refine ⟨h.pieces, [], ?_, rfl, by simp⟩
    cases h with | mk p f => cases f <;> simp [runS]
  | fail e => intro h; exact ⟨by simp [run], fun e' _ => ⟨e, rfl⟩, by simp [run]⟩
  | panic x => intro h; refine ⟨by simp [run], by simp [run], ?_⟩; intro y hy; simp only [run, Res.panic.injEq] at hy; subst hy; rfl
  | take n k ih =>
    intro h
    obtain ⟨f1, f2, f3⟩ := readExactS_flat h.pieces n
    simp only [run, runS]
    cases hr : readExactS n h.pieces with
    | ok x =>
      obtain ⟨b, s'⟩ := x
      have ht := f1 b s' hr
      simp only [Rd.take] at ht
      split at ht
      · simp at ht
      · rename_i hl
        simp only [Res.ok.injEq, Prod.mk.injEq] at ht
        obtain ⟨ht1, ht2⟩ := ht
        simp only [hl, ↓reduceIte, ht1, ht2]
        obtain ⟨g1, g2, g3⟩ := ih b ⟨s', h.fed.map (· ++ b)⟩
        refine ⟨?_, g2, g3⟩
        intro a rest hrun
        obtain ⟨s'', used, hS, hfl, hsplit⟩ := g1 a rest hrun
        refine ⟨s'', b ++ used, ?_, hfl, ?_⟩
        · rw [hS]; cases h.fed <;> simp
        · simp only at hsplit
          rw [List.append_assoc, ← hsplit, ← ht1, ← ht2, List.take_append_drop]
    | err e =>
      obtain ⟨e', he'⟩ := f2 e hr
      simp only [Rd.take] at he'
      split at he'
      · rename_i hl
        simp only [hl, ↓reduceIte]
        exact ⟨by simp, fun _ _ => ⟨e, rfl⟩, by simp⟩
      · simp at he'
    | panic x => exact absurd hr (f3 x)
  | skip n k ih =>
    intro h
    simp only [run, runS]
    obtain ⟨g1, g2, g3⟩ := ih ⟨dropS n h.pieces, h.fed.map (· ++ h.pieces.flatten.take n)⟩
    simp only [dropS_flat] at g1 g2 g3
    refine ⟨?_, g2, g3⟩
    intro a rest hrun
    obtain ⟨s'', used, hS, hfl, hsplit⟩ := g1 a rest hrun
    refine ⟨s'', h.pieces.flatten.take n ++ used, ?_, hfl, ?_⟩
    · rw [hS]; cases h.fed <;> simp
    · rw [List.append_assoc, ← hsplit, List.take_append_drop]

#print axioms frag
end Prog
end Peppi
