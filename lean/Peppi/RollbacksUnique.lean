import Peppi.RollbacksProof
/-! C15, last sentence of the statement: *exactly one* row per distinct frame id is unmarked, in either mode; and the
    keep-last counterpart of `C15_first_nodup`. -/
namespace Peppi

/-- the least index at which a list holds `x` -/
theorem exists_first_index (ids : List Int) (x : Int) (hx : x ∈ ids) :
    ∃ i, ∃ hi : i < ids.length, ids[i] = x ∧ ∀ j, ∀ hj : j < i, ids[j] ≠ x := by
  induction ids with
  | nil => simp at hx
  | cons a as ih =>
    by_cases hax : a = x
    · exact ⟨0, by simp, by simpa using hax, by intro j hj; omega⟩
    · have hx' : x ∈ as := by
        rcases List.mem_cons.mp hx with h | h
        · exact absurd h.symm hax
        · exact h
      obtain ⟨i, hi, hix, hmin⟩ := ih hx'
      refine ⟨i + 1, by simp; omega, by simpa using hix, ?_⟩
      intro j hj
      cases j with
      | zero => simpa using hax
      | succ k => simpa using hmin k (by omega)

/-- the greatest index at which a list holds `x` -/
theorem exists_last_index (ids : List Int) (x : Int) (hx : x ∈ ids) :
    ∃ i, ∃ hi : i < ids.length, ids[i] = x ∧ ∀ j, ∀ hj : j < ids.length, i < j → ids[j] ≠ x := by
  induction ids with
  | nil => simp at hx
  | cons a as ih =>
    by_cases hx' : x ∈ as
    · obtain ⟨i, hi, hix, hmax⟩ := ih hx'
      refine ⟨i + 1, by simp; omega, by simpa using hix, ?_⟩
      intro j hj hij
      cases j with
      | zero => omega
      | succ k => simpa using hmax k (by simp at hj; omega) (by omega)
    · have hax : a = x := by
        rcases List.mem_cons.mp hx with h | h
        · exact h.symm
        · exact absurd h hx'
      refine ⟨0, by simp, by simpa using hax, ?_⟩
      intro j hj _
      cases j with
      | zero => omega
      | succ k =>
        intro hk
        apply hx'
        have : as[k]'(by simp at hj; omega) = x := by simpa using hk
        rw [← this]; exact List.getElem_mem _

theorem mask_false_iff {m : List Bool} {n i : Nat} (hl : m.length = n) (hi : i < n) {P : Prop}
    (h : m[i]? = some true ↔ P) : m[i]? = some false ↔ ¬ P := by
  have him : i < m.length := by omega
  rw [List.getElem?_eq_getElem him] at h ⊢
  cases hb : m[i] <;> simp [hb] at h ⊢ <;> exact h

/-- **C15, "exactly one row per distinct frame id is unmarked" (keep-first)**: for every id that occurs there is one
    and only one row holding it whose mask entry is `false` (its first occurrence). -/
theorem C15_first_unique (ids : List Int) (h : ∀ x ∈ ids, FIRST_INDEX ≤ x) :
    ∃ m, rollbacks .exceptFirst ids = .ok m ∧ m.length = ids.length ∧
      ∀ x ∈ ids, ∃ i, (∃ hi : i < ids.length, ids[i] = x ∧ m[i]? = some false) ∧
        ∀ k, ∀ hk : k < ids.length, ids[k] = x → m[k]? = some false → k = i := by
  obtain ⟨m, hm, hl, hspec⟩ := C15_first ids h
  refine ⟨m, hm, hl, ?_⟩
  intro x hx
  obtain ⟨i, hi, hix, hmin⟩ := exists_first_index ids x hx
  refine ⟨i, ⟨hi, hix, ?_⟩, ?_⟩
  · rw [mask_false_iff hl hi (hspec i hi)]
    intro hex; obtain ⟨j, hj, hji⟩ := hex
    exact hmin j hj (by rw [hji, hix])
  · intro k hk hkx hkf
    rw [mask_false_iff hl hk (hspec k hk)] at hkf
    by_cases hki : k = i
    · exact hki
    · exfalso
      by_cases hlt : k < i
      · exact hmin k hlt hkx
      · exact hkf ⟨i, by omega, by rw [hix, hkx]⟩

/-- **C15, "exactly one row per distinct frame id is unmarked" (keep-last)** -/
theorem C15_last_unique (ids : List Int) (h : ∀ x ∈ ids, FIRST_INDEX ≤ x) :
    ∃ m, rollbacks .exceptLast ids = .ok m ∧ m.length = ids.length ∧
      ∀ x ∈ ids, ∃ i, (∃ hi : i < ids.length, ids[i] = x ∧ m[i]? = some false) ∧
        ∀ k, ∀ hk : k < ids.length, ids[k] = x → m[k]? = some false → k = i := by
  obtain ⟨m, hm, hl, hspec⟩ := C15_last ids h
  refine ⟨m, hm, hl, ?_⟩
  intro x hx
  obtain ⟨i, hi, hix, hmax⟩ := exists_last_index ids x hx
  refine ⟨i, ⟨hi, hix, ?_⟩, ?_⟩
  · rw [mask_false_iff hl hi (hspec i hi)]
    intro hex; obtain ⟨j, hj, hij, hji⟩ := hex
    exact hmax j hj hij (by rw [hji, hix])
  · intro k hk hkx hkf
    rw [mask_false_iff hl hk (hspec k hk)] at hkf
    by_cases hki : k = i
    · exact hki
    · exfalso
      by_cases hlt : i < k
      · exact hmax k hk hlt hkx
      · exact hkf ⟨i, hi, by omega, by rw [hix, hkx]⟩

/-- **C15, corollary**: a game without repeated frame ids yields an all-false mask in keep-last mode too -/
theorem C15_last_nodup (ids : List Int) (h : ∀ x ∈ ids, FIRST_INDEX ≤ x) (hnd : ids.Nodup) :
    ∃ m, rollbacks .exceptLast ids = .ok m ∧ m.length = ids.length ∧ ∀ b ∈ m, b = false := by
  obtain ⟨m, hm, hl, hspec⟩ := C15_last ids h
  refine ⟨m, hm, hl, ?_⟩
  intro b hb
  obtain ⟨i, hi, rfl⟩ := List.getElem_of_mem hb
  cases hbi : m[i] with
  | false => rfl
  | true =>
    exfalso
    have hi' : i < ids.length := by omega
    have : m[i]? = some true := by rw [List.getElem?_eq_getElem hi, hbi]
    obtain ⟨j, hj, hij, hji⟩ := (hspec i hi').mp this
    have := (List.getElem_inj (h₀ := hj) (h₁ := hi') hnd).mp hji
    omega

/-- non-vacuity: ids repeated more than twice, non-adjacent repeats, a repeat at the first and at the last row -/
example : rollbacks .exceptFirst [-123, -122, -123, -121, -122, -123] = .ok [false, false, true, false, true, true] := by decide
example : rollbacks .exceptLast [-123, -122, -123, -121, -122, -123] = .ok [true, true, true, false, false, false] := by decide

end Peppi
