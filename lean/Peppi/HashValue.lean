import Peppi.Xxh3
import Peppi.Hash
import Peppi.Lemmas.Unified2
import Peppi.ReadStream
/-! C11 at the level of the value: the string in `Game::hash` is `format_hash` of the XXH3-64 (`Xxh3.lean`, an executable
    definition) of exactly the bytes the reader consumed.  The reader model reports how many leading bytes of the input the hasher
    has been fed (`hashedLen`; `readSlpS_frag` shows this is what the hashing wrapper sees under every fragmentation of the
    stream); `Game.hashStr` is the string the library returns, and the driver prints it for comparison with the real one. -/
namespace Peppi

/-- `Game::hash`: `Some("xxh3:" + 16 hex digits)` when hashing was requested, over the consumed prefix of the input -/
def Game.hashStr (g : Game) (input : Bytes) : Option (List Char) :=
  g.hashedLen.map fun n => formatHash (xxh3_64 (input.take n))

/-- **C11, value level, every version**: on the canonical file of any well-formed replay the hash string is
    `xxh3:` followed by the 16 lower-case hex digits of XXH3-64 of *the whole file*, and absent when not requested -/
theorem C11_value_any (T : TextOracle) (r : Replay) (s : Start) (gk : Option GeckoBlocks) (h : r.WFAny T s gk) (hash : Bool) :
    ∃ g, readSlp T { skipFrames := false, computeHash := hash } (r.encodeAny s.version (portOccupancy s) gk) = .ok g ∧
      g.hashStr (r.encodeAny s.version (portOccupancy s) gk) =
        (if hash then some (formatHash (xxh3_64 (r.encodeAny s.version (portOccupancy s) gk))) else none) := by
  obtain ⟨g, hg, hl⟩ := C11_range_any T r s gk h hash
  refine ⟨g, hg, ?_⟩
  cases hash
  · simp [Game.hashStr, hl]
  · simp only [Game.hashStr, hl, if_true, Option.map_some, List.take_length]

/-- two files whose hash strings agree have the same XXH3-64 value (the rendering loses nothing) -/
theorem hashStr_inj (a b : Bytes) (h : formatHash (xxh3_64 a) = formatHash (xxh3_64 b)) : xxh3_64 a = xxh3_64 b :=
  formatHash_inj _ _ (xxh3_64_lt a) (xxh3_64_lt b) h

#print axioms C11_value_any
end Peppi
