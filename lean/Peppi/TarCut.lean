import Peppi.Tar
/-! A *lazy* tar reader — what `tar::Archive::entries()` yields member by member on **any** byte string, including one that
    stops early — and the exact list it yields on every prefix of a written archive.

    `tar` hands the reader each member as soon as its header block has been read; the member's contents are whatever bytes are
    there (a short read at end of input is not an error of the `Entry` reader), and it is the *next* call of the iterator that
    fails when the contents or the padding are incomplete.  End of input exactly at a member boundary ends the iteration
    quietly, as a zero block does.  `tarScan` models that; `tarScan_cut` computes it on `(tarArchive es).take n` for every `n`.
    The model is compared with the `tar` crate on prefixes of written archives on every run (driver op `tarscan`). -/
namespace Peppi

inductive TItem where
  | entry (name body : Bytes)
  | broken                       -- the iterator returns `Err` (and `read` gives up)
deriving Repr, DecidableEq

inductive Hdr where
  | zero | bad | ok (name : Bytes) (size : Nat)
deriving Repr, DecidableEq

/-- what the reader makes of a 512-byte header block -/
def hdrInfo (h : Bytes) : Hdr :=
  if h.all (· == 0) then .zero else
  if parseOctal ((h.drop 148).take 7) ≠ some (bsum (h.take 148) + 256 + bsum (h.drop 156)) then .bad else
  match parseOctal ((h.drop 124).take 11) with
  | none => .bad
  | some size => .ok ((h.take 100).takeWhile (· != 0)) size

theorem hdrInfo_header (name : Bytes) (size : Nat) (hn0 : 0 < name.length) (hn : name.length ≤ 100)
    (hnul : ∀ b ∈ name, b ≠ 0) (hsz : size < 8 ^ 11) : hdrInfo (tarHeader name size) = .ok name size := by
  have hpl := hdrPre_length name size hn
  unfold hdrInfo
  have hnz : (tarHeader name size).all (· == 0) = false := by
    match name, hn0, hnul with
    | b :: t, _, hnul =>
      have : b ≠ 0 := hnul b (by simp)
      simp [tarHeader, hdrPre, hdrA, this]
  simp only [hnz, Bool.false_eq_true, ↓reduceIte]
  have hpre : (tarHeader name size).take 148 = hdrPre name size := by
    simp only [tarHeader, List.append_assoc]; exact List.take_left' hpl
  have hck : ((tarHeader name size).drop 148).take 7 = octal 7 (hdrCksum name size) := by
    simp only [tarHeader, List.append_assoc]
    rw [List.drop_left' hpl]
    exact List.take_left' (octal_length _ _)
  have hpost : (tarHeader name size).drop 156 = hdrPost := by
    have : (hdrPre name size ++ (octal 7 (hdrCksum name size) ++ [0])).length = 156 := by
      simp [hpl, octal_length]
    simp only [tarHeader]
    exact List.drop_left' this
  rw [hpre, hck, hpost, parseOctal_octal 7 _ (hdrCksum_lt name size hn)]
  simp only [hdrCksum, ne_eq, not_true_eq_false, ↓reduceIte]
  have hname : ((tarHeader name size).take 100).takeWhile (· != 0) = name := by
    have h100 : (tarHeader name size).take 100 = name ++ zeros (100 - name.length) := by
      simp only [tarHeader, hdrPre, hdrA, List.append_assoc]
      rw [← List.append_assoc name]
      exact List.take_left' (by simp [zeros]; omega)
    rw [h100]
    apply takeWhile_stop
    · intro b hb; simpa using hnul b hb
    · cases hz : 100 - name.length with
      | zero => simp [zeros]
      | succ m => simp [zeros, List.replicate_succ]
  have hsize : ((tarHeader name size).drop 124).take 11 = octal 11 size := by
    simp only [tarHeader, hdrPre, List.append_assoc]
    rw [List.drop_left' (hdrA_length name hn)]
    exact List.take_left' (octal_length _ _)
  rw [hname, hsize, parseOctal_octal 11 _ hsz]

/-- the members the iterator yields, and — when it ended on a zero block — whether a second zero block follows -/
def tarScan : Nat → Bytes → List TItem × Bool
  | 0, _ => ([.broken], false)
  | fuel+1, bs =>
    if bs.length = 0 then ([], false) else
    if bs.length < 512 then ([.broken], false) else
    match hdrInfo (bs.take 512) with
    | .zero => ([], decide (1024 ≤ bs.length) && ((bs.drop 512).take 512).all (· == 0))
    | .bad => ([.broken], false)
    | .ok name size =>
      let body := bs.drop 512
      let r := if body.length < size + padLen size then ([TItem.broken], false)
               else tarScan fuel (body.drop (size + padLen size))
      (.entry name (body.take size) :: r.1, r.2)

/-- what the iterator yields on the first `n` bytes of the archive written for `es` -/
def cutItems : List (Bytes × Bytes) → Nat → List TItem × Bool
  | [], n => if n = 0 then ([], false) else if n < 512 then ([.broken], false) else ([], decide (1024 ≤ n))
  | e :: es, n =>
    if n = 0 then ([], false) else
    if n < 512 then ([.broken], false) else
    if n < (tarEntry e).length then ([.entry e.1 (e.2.take (n - 512)), .broken], false) else
    let r := cutItems es (n - (tarEntry e).length)
    (.entry e.1 e.2 :: r.1, r.2)

theorem tarEntry_len (e : Bytes × Bytes) (hn : e.1.length ≤ 100) :
    (tarEntry e).length = 512 + (e.2.length + padLen e.2.length) := by
  simp only [tarEntry, List.length_append, tarHeader_length e.1 e.2.length hn, zeros, List.length_replicate]; omega

theorem tarScan_zeros (fuel n : Nat) : tarScan (fuel + 1) ((zeros 1024).take n) = cutItems [] n := by
  have hz : (zeros 1024).take n = zeros (min n 1024) := by simp only [zeros, List.take_replicate]
  rw [hz, tarScan, cutItems]
  simp only [zeros, List.length_replicate]
  by_cases h0 : n = 0
  · subst h0; simp
  · by_cases h1 : n < 512
    · have : ¬ min n 1024 = 0 := by omega
      have h2 : min n 1024 < 512 := by omega
      simp [h0, h1, this, h2]
    · have : ¬ min n 1024 = 0 := by omega
      have h2 : ¬ min n 1024 < 512 := by omega
      have h3 : (List.replicate (min n 1024) (0 : UInt8)).take 512 = zeros 512 := by
        simp only [List.take_replicate, zeros]; congr 1; omega
      have h4 : hdrInfo (zeros 512) = .zero := by unfold hdrInfo; rw [if_pos (zeros_all 512)]
      simp only [h0, h1, this, h2, ↓reduceIte, h3, h4]
      have h5 : ((List.replicate (min n 1024) (0 : UInt8)).drop 512).take 512 = zeros (min 512 (min n 1024 - 512)) := by
        simp [List.drop_replicate, List.take_replicate, zeros]
      rw [h5, zeros_all]
      by_cases h6 : 1024 ≤ n
      · simp [h6]
      · have : ¬ 1024 ≤ min n 1024 := by omega
        simp [h6, this]

/-- one member off the front of a truncated byte string -/
theorem tarScan_entry (fuel : Nat) (e : Bytes × Bytes) (he : EntryOK e) (rest : Bytes) (n : Nat) :
    tarScan (fuel + 1) ((tarEntry e ++ rest).take n) =
      if n = 0 then ([], false) else
      if n < 512 then ([.broken], false) else
      if n < (tarEntry e).length then ([.entry e.1 (e.2.take (n - 512)), .broken], false) else
      let r := tarScan fuel (rest.take (n - (tarEntry e).length))
      (.entry e.1 e.2 :: r.1, r.2) := by
  obtain ⟨name, data⟩ := e
  obtain ⟨⟨hn0, hn⟩, hnul, hsz⟩ := he
  simp only at hn0 hn hnul hsz
  have hl := tarHeader_length name data.length hn
  have hL := tarEntry_len (name, data) hn
  simp only at hL
  have hfull : (tarEntry (name, data) ++ rest).length = 512 + (data.length + padLen data.length) + rest.length := by
    rw [List.length_append, hL]
  rw [tarScan]
  by_cases h0 : n = 0
  · subst h0; simp
  · by_cases h1 : n < 512
    · have ha : ¬ ((tarEntry (name, data) ++ rest).take n).length = 0 := by rw [List.length_take, hfull]; omega
      have hb : ((tarEntry (name, data) ++ rest).take n).length < 512 := by rw [List.length_take, hfull]; omega
      rw [if_neg ha, if_pos hb, if_neg h0, if_pos h1]
    · have ha : ¬ ((tarEntry (name, data) ++ rest).take n).length = 0 := by rw [List.length_take, hfull]; omega
      have hb : ¬ ((tarEntry (name, data) ++ rest).take n).length < 512 := by rw [List.length_take, hfull]; omega
      have htake : ((tarEntry (name, data) ++ rest).take n).take 512 = tarHeader name data.length := by
        rw [List.take_take, show min 512 n = 512 by omega]
        simp only [tarEntry, List.append_assoc]; exact List.take_left' hl
      have hdrop : ((tarEntry (name, data) ++ rest).take n).drop 512 = (data ++ (zeros (padLen data.length) ++ rest)).take (n - 512) := by
        rw [List.drop_take]
        congr 1
        simp only [tarEntry, List.append_assoc]; exact List.drop_left' hl
      rw [if_neg ha, if_neg hb, if_neg h0, if_neg h1, htake, hdrop, hdrInfo_header name data.length hn0 hn hnul hsz]
      show (TItem.entry name (((data ++ (zeros (padLen data.length) ++ rest)).take (n - 512)).take data.length) ::
          (if ((data ++ (zeros (padLen data.length) ++ rest)).take (n - 512)).length < data.length + padLen data.length then ([TItem.broken], false)
           else tarScan fuel (((data ++ (zeros (padLen data.length) ++ rest)).take (n - 512)).drop (data.length + padLen data.length))).1,
          (if ((data ++ (zeros (padLen data.length) ++ rest)).take (n - 512)).length < data.length + padLen data.length then ([TItem.broken], false)
           else tarScan fuel (((data ++ (zeros (padLen data.length) ++ rest)).take (n - 512)).drop (data.length + padLen data.length))).2) = _
      have hbody : (data ++ (zeros (padLen data.length) ++ rest)).length = data.length + padLen data.length + rest.length := by
        simp [zeros]; omega
      by_cases h2 : n < (tarEntry (name, data)).length
      · rw [hL] at h2
        have hc : ((data ++ (zeros (padLen data.length) ++ rest)).take (n - 512)).length < data.length + padLen data.length := by
          rw [List.length_take, hbody]; omega
        have hd : ((data ++ (zeros (padLen data.length) ++ rest)).take (n - 512)).take data.length = data.take (n - 512) := by
          rw [List.take_take]
          by_cases hk : n - 512 ≤ data.length
          · rw [show min data.length (n - 512) = n - 512 by omega, List.take_append_of_le_length hk]
          · rw [show min data.length (n - 512) = data.length by omega, List.take_left' rfl, List.take_of_length_le (by omega)]
        have h2' : n < (tarEntry (name, data)).length := by rw [hL]; exact h2
        rw [if_pos hc, hd, if_pos h2']
      · have h2' := h2
        rw [hL] at h2
        have hc : ¬ ((data ++ (zeros (padLen data.length) ++ rest)).take (n - 512)).length < data.length + padLen data.length := by
          rw [List.length_take, hbody]; omega
        have hd : ((data ++ (zeros (padLen data.length) ++ rest)).take (n - 512)).take data.length = data := by
          rw [List.take_take, show min data.length (n - 512) = data.length by omega]; exact List.take_left' rfl
        have he' : ((data ++ (zeros (padLen data.length) ++ rest)).take (n - 512)).drop (data.length + padLen data.length) =
            rest.take (n - (tarEntry (name, data)).length) := by
          rw [List.drop_take, hL]
          have : (data ++ (zeros (padLen data.length) ++ rest)).drop (data.length + padLen data.length) = rest := by
            rw [← List.append_assoc]; exact List.drop_left' (by simp [zeros])
          rw [this, show n - 512 - (data.length + padLen data.length) = n - (512 + (data.length + padLen data.length)) by omega]
        rw [if_neg hc, hd, he', if_neg h2']

/-- **the lazy reader on every prefix of a written archive** -/
theorem tarScan_cut (es : List (Bytes × Bytes)) (hes : ∀ e ∈ es, EntryOK e) (fuel : Nat) (hf : es.length < fuel) (n : Nat) :
    tarScan fuel ((tarArchive es).take n) = cutItems es n := by
  induction es generalizing fuel n with
  | nil =>
    cases fuel with
    | zero => omega
    | succ f => exact tarScan_zeros f n
  | cons e t ih =>
    cases fuel with
    | zero => simp at hf
    | succ f =>
      have : tarArchive (e :: t) = tarEntry e ++ tarArchive t := by simp [tarArchive, List.flatMap_cons]
      rw [this, tarScan_entry f e (hes e (by simp)) (tarArchive t) n, cutItems]
      simp only [ih (fun e' he' => hes e' (by simp [he'])) f (by simp at hf; omega)]

/-- on a complete archive the lazy reader yields what the eager one returns -/
theorem cutItems_full (es : List (Bytes × Bytes)) (hn : ∀ e ∈ es, e.1.length ≤ 100) :
    cutItems es (tarArchive es).length = (es.map fun e => TItem.entry e.1 e.2, true) := by
  induction es with
  | nil =>
    have : (tarArchive []).length = 1024 := by show (zeros 1024).length = 1024; rw [zeros, List.length_replicate]
    rw [this]; simp [cutItems]
  | cons e t ih =>
    have h1 : tarArchive (e :: t) = tarEntry e ++ tarArchive t := by simp [tarArchive, List.flatMap_cons]
    have h2 := tarEntry_len e (hn e (by simp))
    have h3 := tarArchive_length_ge t (fun e' he' => hn e' (by simp [he']))
    rw [cutItems, h1, List.length_append]
    have a0 : ¬ (tarEntry e).length + (tarArchive t).length = 0 := by omega
    have a1 : ¬ (tarEntry e).length + (tarArchive t).length < 512 := by omega
    have a2 : ¬ (tarEntry e).length + (tarArchive t).length < (tarEntry e).length := by omega
    simp only [a0, a1, a2, ↓reduceIte, Nat.add_sub_cancel_left, ih (fun e' he' => hn e' (by simp [he'])), List.map_cons]

/-- every member consumes at least its header block, so any fuel above `length / 512` is as good as any other -/
theorem tarScan_fuel : ∀ (fuel : Nat) (bs : Bytes), bs.length / 512 < fuel → ∀ fuel', bs.length / 512 < fuel' →
    tarScan fuel bs = tarScan fuel' bs := by
  intro fuel
  induction fuel with
  | zero => intro bs h; omega
  | succ f ih =>
    intro bs h fuel' h'
    cases fuel' with
    | zero => omega
    | succ f' =>
      rw [tarScan, tarScan]
      by_cases h0 : bs.length = 0
      · rw [if_pos h0, if_pos h0]
      · by_cases h1 : bs.length < 512
        · rw [if_neg h0, if_pos h1, if_neg h0, if_pos h1]
        · rw [if_neg h0, if_neg h1, if_neg h0, if_neg h1]
          cases hdrInfo (bs.take 512) with
          | zero => rfl
          | bad => rfl
          | ok name size =>
            simp only []
            by_cases hb : (bs.drop 512).length < size + padLen size
            · rw [if_pos hb, if_pos hb]
            · rw [if_neg hb, if_neg hb]
              have hl : ((bs.drop 512).drop (size + padLen size)).length ≤ bs.length - 512 := by
                simp only [List.length_drop]; omega
              have hq : (bs.length - 512) / 512 + 1 = bs.length / 512 := by omega
              have hq2 : ((bs.drop 512).drop (size + padLen size)).length / 512 ≤ (bs.length - 512) / 512 :=
                Nat.div_le_div_right hl
              rw [ih _ (by omega) f' (by omega)]

#print axioms tarScan_cut
#print axioms cutItems_full
end Peppi
