import Peppi.VersionProof
/-! C20, consequences stated outright: the gates order versions totally on (major, minor); `Display` is injective on
    versions; whatever `from_str` accepts is a `u8` triple, and displaying it gives a string that parses to it again
    (`parse ∘ display ∘ parse = parse`, although `display ∘ parse` is not the identity: `+3.016.0`). -/
namespace Peppi

/-- every version passes the gate at its own (major, minor) -/
theorem Ver.gte_self (v : Ver) : v.gte v.major v.minor = true := by
  rw [Ver.gte_iff]; omega

/-- of two versions, one passes the gate placed at the other (the gates order versions totally) -/
theorem Ver.gte_total (v w : Ver) : v.gte w.major w.minor = true ∨ w.gte v.major v.minor = true := by
  rw [Ver.gte_iff, Ver.gte_iff]; omega

/-- two versions that pass each other's gate agree on major and minor (and then pass exactly the same gates) -/
theorem Ver.gte_antisymm (v w : Ver) (h1 : v.gte w.major w.minor = true) (h2 : w.gte v.major v.minor = true) :
    v.major = w.major ∧ v.minor = w.minor ∧ ∀ M m, v.gte M m = w.gte M m := by
  rw [Ver.gte_iff] at h1 h2
  have h : v.major = w.major ∧ v.minor = w.minor := by omega
  refine ⟨h.1, h.2, ?_⟩
  intro M m; unfold Ver.gte; rw [h.1, h.2]

/-- the less-than test is monotone the other way round -/
theorem Ver.lt_mono (v w : Ver) (M m : Nat) (h : v.major < w.major ∨ (v.major = w.major ∧ v.minor ≤ w.minor))
    (hw : w.lt M m = true) : v.lt M m = true := by
  rw [Ver.lt_iff] at *; omega

/-- what `from_str` returns is a triple of `u8` values -/
theorem Ver.parse_wf (s : List Char) (v : Ver) (h : Ver.parse s = .ok v) : v.WF := by
  obtain ⟨a, b, c, _, _, _, _, la, lb, lc⟩ := (Ver.parse_iff s v).mp h
  obtain ⟨_, _, _, _, _, ha⟩ := la
  obtain ⟨_, _, _, _, _, hb⟩ := lb
  obtain ⟨_, _, _, _, _, hc⟩ := lc
  exact ⟨by omega, by omega, by omega⟩

/-- `Display` is injective: two versions with the same text are the same version -/
theorem Ver.display_inj (v w : Ver) (hv : v.WF) (hw : w.WF) (h : v.display = w.display) : v = w := by
  have h1 := Ver.parse_display v hv
  have h2 := Ver.parse_display w hw
  rw [h, h2] at h1
  exact (Res.ok.inj h1).symm

/-- an accepted string, displayed after parsing, parses to the same version again -/
theorem Ver.parse_display_parse (s : List Char) (v : Ver) (h : Ver.parse s = .ok v) : Ver.parse v.display = .ok v :=
  Ver.parse_display v (Ver.parse_wf s v h)

/-- … though the text itself need not come back: a sign and leading zeros are accepted and not reproduced -/
example : Ver.parse "+3.016.0".toList = .ok ⟨3, 16, 0⟩ ∧ Ver.display ⟨3, 16, 0⟩ = "3.16.0".toList := by decide +kernel

/-- boundary of `u8`: 255 is accepted, 256 and a fourth component are not -/
example : Ver.parse "255.255.255".toList = .ok ⟨255, 255, 255⟩ := by decide +kernel
example : Ver.parse "3.16.256".toList = .err "couldn't parse integer" := by decide +kernel
example : Ver.parse "3.16.0.0".toList = .err "invalid version" := by decide +kernel

end Peppi
