import Peppi.Extracted
/-! `structOK` decided by the kernel on the views extracted from the current source, for each of the eleven
    generated structs.  A generated function that drops, swaps, re-gates or re-types a member makes the
    corresponding theorem fail to check. -/
namespace Peppi
open Extracted

theorem views_End : structOK true true End.views = true := by decide +kernel
theorem views_Item : structOK false true Item.views = true := by decide +kernel
theorem views_ItemMisc : structOK false false ItemMisc.views = true := by decide +kernel
theorem views_Position : structOK false true Position.views = true := by decide +kernel
theorem views_Post : structOK false true Post.views = true := by decide +kernel
theorem views_Pre : structOK false true Pre.views = true := by decide +kernel
theorem views_Start : structOK false true Start.views = true := by decide +kernel
theorem views_StateFlags : structOK false false StateFlags.views = true := by decide +kernel
theorem views_TriggersPhysical : structOK false true TriggersPhysical.views = true := by decide +kernel
theorem views_Velocities : structOK false true Velocities.views = true := by decide +kernel
theorem views_Velocity : structOK false true Velocity.views = true := by decide +kernel

/-! the Arrow schema of every generated struct against `gen/resources/frames.json` (C14: "exactly those of the
    per-version field table") -/
theorem schema_End : schemaMatchesJson End.views End.framesJson = true := by decide +kernel
theorem schema_Item : schemaMatchesJson Item.views Item.framesJson = true := by decide +kernel
theorem schema_ItemMisc : schemaMatchesJson ItemMisc.views ItemMisc.framesJson = true := by decide +kernel
theorem schema_Position : schemaMatchesJson Position.views Position.framesJson = true := by decide +kernel
theorem schema_Post : schemaMatchesJson Post.views Post.framesJson = true := by decide +kernel
theorem schema_Pre : schemaMatchesJson Pre.views Pre.framesJson = true := by decide +kernel
theorem schema_Start : schemaMatchesJson Start.views Start.framesJson = true := by decide +kernel
theorem schema_StateFlags : schemaMatchesJson StateFlags.views StateFlags.framesJson = true := by decide +kernel
theorem schema_TriggersPhysical : schemaMatchesJson TriggersPhysical.views TriggersPhysical.framesJson = true := by decide +kernel
theorem schema_Velocities : schemaMatchesJson Velocities.views Velocities.framesJson = true := by decide +kernel
theorem schema_Velocity : schemaMatchesJson Velocity.views Velocity.framesJson = true := by decide +kernel

end Peppi
