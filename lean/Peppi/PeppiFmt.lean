import Peppi.Arrow
import Peppi.Json
import Peppi.Write
import Peppi.UbjsonProof
/-! Model of `io::peppi::ser::write` at the level of the archive's entry list (repaired tree).
    Entry contents are canonical descriptions: raw entries as hex, JSON entries as canonical JSON text,
    `frames.arrow` as the Arrow tree dump (tar framing, JSON text and Arrow IPC bytes are externals). -/
namespace Peppi

mutual
  partial def treeCanon : Tree → String
    | .str s => "s:" ++ hexOf s
    | .int n => "i:" ++ toString n
    | .map m => "{" ++ kvsCanon m ++ "}"
  partial def kvsCanon : KVs → String
    | .nil => ""
    | .cons k v rest => hexOf k ++ "=" ++ treeCanon v ++ ";" ++ kvsCanon rest
end

def leU32 (n : Nat) : Bytes := (toBE 4 n).reverse

/-- `peppi::write`: the entries, in order -/
def peppiEntries (g : Game) (hash : Option String) : Res (List (String × String)) := do
  assertMaxVersion g.start.version
  let peppiJson := jObj ([("version", jArr ["2", "0", "0"])] ++ jOptKV "slp_hash" (hash.map jStr) ++
    jOptKV "quirks" (g.doubleGameEnd.map fun b => jObj [("double_game_end", jBool b)]))
  let base : List (String × String) := [
    ("peppi.json", peppiJson),
    ("metadata.json", match g.metadata with | some m => "{" ++ kvsCanon m ++ "}" | none => "null"),
    ("start.json", startJson g.start),
    ("start.raw", hexOf g.start.bytes)]
  let endE := match g.fend with | some e => [("end.json", endJson e), ("end.raw", hexOf e.bytes)] | none => []
  let geckoE := match g.gecko with | some c => [("gecko_codes.raw", hexOf (leU32 c.actualSize ++ c.bytes))] | none => []
  let framesE ← (if g.frames.id.length > 0 then do
      let d ← frameDump g.start.version g.frames
      pure [("frames.arrow", d)]
    else pure [])
  pure (base ++ endE ++ geckoE ++ framesE)

end Peppi
