import Peppi.Extracted
import Peppi.Spec
/-! Decidable premises about the tables extracted from the current source. -/
namespace Peppi
open Extracted

/-- the gate list of a code field means "v ≥ since" for the spec: its last gate is the spec's `since`
    (fields without gates exist since 0.1) and gates nest monotonically -/
def lastGate : List (Nat × Nat) → Nat × Nat
  | [] => (0, 0)
  | [a] => a
  | _ :: b :: t => lastGate (b :: t)
def sinceOf (f : Fld) : Nat × Nat := lastGate f.gates

/-- code table vs spec table: same names (by leaf id), types, widths, absolute offsets, first version -/
def matchesSpec (names : List (List Nat)) (types : List Nat) (code : List Fld) (hdr : Nat) (spec : List Spec.SField) : Bool :=
  code.length == spec.length &&
  (List.range code.length).all (fun k =>
    match code[k]?, spec[k]?, (staticOffsets code hdr)[k]? with
    | some f, some s, some off =>
      names[f.id]? == some s.name && types[f.id]? == some s.ty && f.width == Spec.width s.ty &&
      off == s.off && sinceOf f == s.since
    | _, _, _ => false)

/-- a gate list is a ≤-chain (so the conjunction equals its last element) -/
def chain : List (Nat × Nat) → Bool
  | [] => true
  | [_] => true
  | a :: b :: t => leqGate a b && chain (b :: t)

def tableOK (code : List Fld) : Bool := gatesMonotone code && code.all (fun f => chain f.gates)

theorem pre_views : Pre.readPush = Pre.write ∧ Pre.readPushTypes = Pre.writeTypes ∧
    Pre.size = Pre.readPush.map (fun f => (f.width, f.gates)) := by decide +kernel
theorem post_views : Post.readPush = Post.write ∧ Post.readPushTypes = Post.writeTypes ∧
    Post.size = Post.readPush.map (fun f => (f.width, f.gates)) := by decide +kernel
theorem start_views : Start.readPush = Start.write ∧ Start.size = Start.readPush.map (fun f => (f.width, f.gates)) := by decide +kernel
theorem item_views : Item.readPush = Item.write ∧ Item.size = Item.readPush.map (fun f => (f.width, f.gates)) := by decide +kernel
theorem end_views : End.readPush = End.write ∧ End.size = End.readPush.map (fun f => (f.width, f.gates)) := by decide +kernel

theorem pre_ok : tableOK Pre.readPush = true := by decide +kernel
theorem post_ok : tableOK Post.readPush = true := by decide +kernel
theorem start_ok : tableOK Start.readPush = true := by decide +kernel
theorem item_ok : tableOK Item.readPush = true := by decide +kernel
theorem end_ok : tableOK End.readPush = true := by decide +kernel

theorem pre_spec : matchesSpec Pre.names Pre.types Pre.readPush Spec.preHdr Spec.pre = true := by decide +kernel
theorem post_spec : matchesSpec Post.names Post.types Post.readPush Spec.postHdr Spec.post = true := by decide +kernel
theorem start_spec : matchesSpec Start.names Start.types Start.readPush Spec.startHdr Spec.start = true := by decide +kernel
theorem item_spec : matchesSpec Item.names Item.types Item.readPush Spec.itemHdr Spec.item = true := by decide +kernel
theorem end_spec : matchesSpec End.names End.types End.readPush Spec.endHdr Spec.fend = true := by decide +kernel

#print axioms post_spec
end Peppi
