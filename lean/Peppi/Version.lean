import Peppi.Rollbacks
/-! Model of `io::slippi::Version` / `io::peppi::Version` (gte, lt, Ord, FromStr, Display) and `io::parse_u8`. -/
namespace Peppi

structure Ver where
  major : Nat
  minor : Nat
  patch : Nat
deriving Repr, DecidableEq

def Ver.WF (v : Ver) : Prop := v.major < 256 ∧ v.minor < 256 ∧ v.patch < 256

/-- `self.0 > major || (self.0 == major && self.1 >= minor)` -/
def Ver.gte (v : Ver) (M m : Nat) : Bool := decide (v.major > M) || (v.major == M && decide (v.minor ≥ m))
def Ver.lt (v : Ver) (M m : Nat) : Bool := !v.gte M m

/-- derived `Ord` on the tuple struct: lexicographic on (major, minor, patch) -/
def Ver.le (a b : Ver) : Bool :=
  decide (a.major < b.major) || (a.major == b.major && (decide (a.minor < b.minor) || (a.minor == b.minor && decide (a.patch ≤ b.patch))))

def isDigit (c : Char) : Bool := decide ('0' ≤ c ∧ c ≤ '9')
def digitVal (c : Char) : Nat := c.toNat - 48

/-- digits loop of `u8::from_str_radix(…, 10)` with the overflow checks -/
def parseDigits : List Char → Nat → Option Nat
  | [], acc => some acc
  | c :: cs, acc =>
    if isDigit c then
      let acc' := acc * 10 + digitVal c
      if acc' ≤ 255 then parseDigits cs acc' else none   -- PosOverflow
    else none                                            -- InvalidDigit

/-- `str::parse::<u8>()`: empty → Err; a lone sign → Err; one leading `+` is stripped; `-` is not
    accepted for unsigned types -/
def parseU8 (s : List Char) : Option Nat :=
  match s with
  | [] => none
  | ['+'] => none
  | ['-'] => none
  | '+' :: rest => parseDigits rest 0
  | s => parseDigits s 0

/-- `str::split('.')` -/
def splitDot : List Char → List (List Char)
  | [] => [[]]
  | c :: cs =>
    if c = '.' then [] :: splitDot cs
    else match splitDot cs with
      | [] => [[c]]
      | h :: t => (c :: h) :: t

/-- `impl FromStr for Version` (both Slippi and Peppi versions) -/
def Ver.parse (s : List Char) : Res Ver :=
  match splitDot s with
  | [a, b, c] =>
    match parseU8 a with
    | none => .err "couldn't parse integer"
    | some x => match parseU8 b with
      | none => .err "couldn't parse integer"
      | some y => match parseU8 c with
        | none => .err "couldn't parse integer"
        | some z => .ok ⟨x, y, z⟩
  | _ => .err "invalid version"

def digitChar (d : Nat) : Char := Char.ofNat (48 + d)

/-- `Display for u8` -/
def showU8 (n : Nat) : List Char :=
  if n < 10 then [digitChar n]
  else if n < 100 then [digitChar (n / 10), digitChar (n % 10)]
  else [digitChar (n / 100), digitChar (n / 10 % 10), digitChar (n % 10)]

/-- `write!(f, "{}.{}.{}", self.0, self.1, self.2)` -/
def Ver.display (v : Ver) : List Char := showU8 v.major ++ ['.'] ++ showU8 v.minor ++ ['.'] ++ showU8 v.patch

def MAX_SUPPORTED_VERSION : Ver := ⟨3, 16, 0⟩
/-- `assert_max_version` -/
def assertMaxVersion (v : Ver) : Res Unit :=
  if v.le MAX_SUPPORTED_VERSION then .ok () else .err "unsupported version"

#eval Ver.parse "3.16.0".toList
#eval Ver.parse "+3.016.0".toList
#eval Ver.parse "3.16".toList
#eval Ver.parse "3.16.256".toList
#eval Ver.parse "3.-1.2".toList
#eval String.ofList (Ver.display ⟨3,16,0⟩)
#eval String.ofList (Ver.display ⟨255,100,9⟩)

end Peppi
