import Peppi.RollbacksUnique
/-! C15: the two modes are mirror images — keep-last on a sequence is keep-first on the reversed sequence, reversed
    (the code runs the same pass "forward or reversed"). -/
namespace Peppi

theorem bool_eq_of_true_iff {a b : Bool} (h : a = true ↔ b = true) : a = b := by
  cases a <;> cases b <;> simp at h ⊢

private theorem mir_lt (n i : Nat) (h : i < n) : n - 1 - i < n := by omega
private theorem mir_mir (n i : Nat) (h : i < n) : n - 1 - (n - 1 - i) = i := by omega
private theorem mir_anti (n i j : Nat) (hj : j < n) (hij : i < j) : n - 1 - j < n - 1 - i := by omega
private theorem mir_anti' (n i j : Nat) (hi : i < n) (hj : j < n - 1 - i) : i < n - 1 - j ∧ n - 1 - j < n := by omega

theorem C15_modes_mirror (ids : List Int) (h : ∀ x ∈ ids, FIRST_INDEX ≤ x) :
    ∃ m1 m2, rollbacks .exceptLast ids = .ok m1 ∧ rollbacks .exceptFirst ids.reverse = .ok m2 ∧ m1 = m2.reverse := by
  obtain ⟨m1, hm1, hl1, hs1⟩ := C15_last ids h
  obtain ⟨m2, hm2, hl2, hs2⟩ := C15_first ids.reverse (fun x hx => h x (List.mem_reverse.mp hx))
  refine ⟨m1, m2, hm1, hm2, ?_⟩
  have hl2' : m2.length = ids.length := by simpa using hl2
  clear hm1 hm2 h
  apply List.ext_getElem (by simp; omega)
  intro i hi1 hi2
  have hi : i < ids.length := by omega
  have hk : ids.length - 1 - i < ids.reverse.length := by simp; omega
  have hk2 : m2.length - 1 - i < m2.length := by omega
  have hk3 : ids.length - 1 - i < m2.length := by omega
  have a2 : ids.length - 1 - (ids.length - 1 - i) = i := mir_mir _ _ hi
  rw [List.getElem_reverse]
  apply bool_eq_of_true_iff
  have e1 := hs1 i hi
  have e2 := hs2 (ids.length - 1 - i) hk
  rw [List.getElem?_eq_getElem hi1, Option.some.injEq] at e1
  rw [List.getElem?_eq_getElem hk3, Option.some.injEq] at e2
  have e3 : m2[m2.length - 1 - i]'hk2 = m2[ids.length - 1 - i]'hk3 := by simp only [hl2']
  rw [e3, e1, e2]
  constructor
  · rintro ⟨j, hj, hij, hji⟩
    refine ⟨ids.length - 1 - j, mir_anti _ _ _ hj hij, ?_⟩
    rw [List.getElem_reverse, List.getElem_reverse]
    simp only [mir_mir _ _ hj, a2]; exact hji
  · rintro ⟨j, hj, hji⟩
    rw [List.getElem_reverse, List.getElem_reverse] at hji
    simp only [a2] at hji
    exact ⟨ids.length - 1 - j, (mir_anti' _ _ _ hi hj).2, (mir_anti' _ _ _ hi hj).1, hji⟩

example : rollbacks .exceptLast [-123, -122, -123, -121] = .ok [true, false, false, false] ∧
    rollbacks .exceptFirst [-121, -123, -122, -123] = .ok [false, false, false, true] := by decide

end Peppi
