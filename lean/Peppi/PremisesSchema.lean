import Peppi.Extracted
/-! the Arrow schema every generated struct declares (`data_type`: member names, types, since-versions) against the generator's
    field table `gen/resources/frames.json` (C14: "exactly those of the per-version field table"; C03: "present iff the
    version is at least the one that introduced it") -/
namespace Peppi
open Extracted

theorem schema_End : schemaMatchesJson End.views End.framesJson = true := by decide +kernel
theorem schema_Item : schemaMatchesJson Item.views Item.framesJson = true := by decide +kernel
theorem schema_ItemMisc : schemaMatchesJson ItemMisc.views ItemMisc.framesJson = true := by decide +kernel
theorem schema_Position : schemaMatchesJson Position.views Position.framesJson = true := by decide +kernel
theorem schema_Post : schemaMatchesJson Post.views Post.framesJson = true := by decide +kernel
theorem schema_Pre : schemaMatchesJson Pre.views Pre.framesJson = true := by decide +kernel
theorem schema_Start : schemaMatchesJson Start.views Start.framesJson = true := by decide +kernel
theorem schema_StateFlags : schemaMatchesJson StateFlags.views StateFlags.framesJson = true := by decide +kernel
theorem schema_TriggersPhysical : schemaMatchesJson TriggersPhysical.views TriggersPhysical.framesJson = true := by decide +kernel
theorem schema_Velocities : schemaMatchesJson Velocities.views Velocities.framesJson = true := by decide +kernel
theorem schema_Velocity : schemaMatchesJson Velocity.views Velocity.framesJson = true := by decide +kernel


end Peppi
