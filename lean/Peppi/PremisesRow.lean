import Peppi.Extracted
/-! `structRowOK` (the row view: `transpose_one` on both representations), decided by the kernel on the views extracted from the current source, for each of the eleven generated structs.
    A generated function that drops, swaps, re-gates or re-types a member makes the corresponding theorem fail to check. -/
namespace Peppi
open Extracted

theorem row_End : structRowOK End.views = true := by decide +kernel
theorem row_Item : structRowOK Item.views = true := by decide +kernel
theorem row_ItemMisc : structRowOK ItemMisc.views = true := by decide +kernel
theorem row_Position : structRowOK Position.views = true := by decide +kernel
theorem row_Post : structRowOK Post.views = true := by decide +kernel
theorem row_Pre : structRowOK Pre.views = true := by decide +kernel
theorem row_Start : structRowOK Start.views = true := by decide +kernel
theorem row_StateFlags : structRowOK StateFlags.views = true := by decide +kernel
theorem row_TriggersPhysical : structRowOK TriggersPhysical.views = true := by decide +kernel
theorem row_Velocities : structRowOK Velocities.views = true := by decide +kernel
theorem row_Velocity : structRowOK Velocity.views = true := by decide +kernel

end Peppi
