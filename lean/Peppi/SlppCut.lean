import Peppi.TarCut
import Peppi.SlppBytes
import Peppi.PeppiJson
import Peppi.Lemmas.NoPanic
import Peppi.Lemmas.Example
/-! **C07, `.slpp` half, byte level.**  The reader of `io/peppi/de.rs` over the lazy tar iterator (`tarScan`), and what it
    returns on *every prefix* of a written archive: an error, or — once the cut lies behind everything the reader consumes —
    the complete game.  Never a partial game; never a panic.

    The external decoders enter with two more assumptions than the round trip needed (`CodecT`): they return (do not panic)
    on arbitrary bytes, and a prefix of a written `frames.arrow` decodes to nothing else than the frames that were written.
    Both are exercised on every cut of sample archives by the `pprefix` suite. -/
namespace Peppi

/-- the codec laws truncation needs -/
structure CodecT (μ φ : Type) extends Codec μ φ where
  peppi_np : ∀ b s, decPeppi b ≠ .panic s
  meta_np : ∀ b s, decMeta b ≠ .panic s
  /-- a prefix of the written Arrow stream never yields a different frame set -/
  frames_prefix : ∀ f n f', (decFrames ((encFrames f).take n)).1 = true → readArrowFrames (decFrames ((encFrames f).take n)).2 = .ok f' → f' = norm f

def classifyT {μ φ : Type} (C : Codec μ φ) : TItem → PEntry μ φ
  | .entry n b => classify C (n, b)
  | .broken => .broken

/-- `io::peppi::read` over the lazy iterator: total on every byte string -/
def slppReadL {μ φ : Type} (C : Codec μ φ) (T : TextOracle) (skip : Bool) (bs : Bytes) : Res (PGame μ φ) :=
  let r := tarScan (bs.length / 512 + 2) bs
  peppiRead T skip r.2 (r.1.map (classifyT C))

/-- one iteration of the entry loop: a final result, or the next accumulator -/
def pstep {μ φ : Type} (T : TextOracle) (skip : Bool) (acc : PAcc μ) : PEntry μ φ → Sum (Res (PGame μ φ)) (PAcc μ)
  | .broken => .inl (.err "tar")
  | .other => .inr acc
  | .peppiJson r =>
    (match r with
     | .ok p => if p.versionOk then .inr { acc with peppi := some p } else .inl (.err "unsupported peppi version")
     | .err e => .inl (.err e)
     | .panic s => .inl (.panic s))
  | .startRaw b =>
    (match gameStart T b with
     | .ok s => .inr { acc with start := some s }
     | .err e => .inl (.err e)
     | .panic s => .inl (.panic s))
  | .endRaw b =>
    (match gameEnd b with
     | .ok e => .inr { acc with fend := some e }
     | .err e => .inl (.err e)
     | .panic s => .inl (.panic s))
  | .metadataJson r =>
    (match r with
     | .ok m => .inr { acc with metadata := m }
     | .err e => .inl (.err e)
     | .panic s => .inl (.panic s))
  | .geckoRaw b =>
    if b.length < 4 then .inl (.err "eof") else .inr { acc with gecko := some (b.drop 4, fromBE ((b.take 4).reverse)) }
  | .framesArrow magicOk items =>
    (match acc.start with
     | none => .inl (.err "no start")
     | some _ =>
       if skip then .inl (finish acc none)
       else if !magicOk then .inl (.err "expected bytes")
       else match readArrowFrames items with
         | .ok f => .inl (finish acc (some f))
         | .err e => .inl (.err e)
         | .panic s => .inl (.panic s))

theorem peppiLoop_step {μ φ : Type} (T : TextOracle) (skip t : Bool) (acc : PAcc μ) (p : PEntry μ φ) (rest : List (PEntry μ φ)) :
    peppiLoop T skip t acc (p :: rest) =
      match pstep T skip acc p with
      | .inl r => r
      | .inr acc' => peppiLoop T skip t acc' rest := by
  cases p with
  | broken => rfl
  | other => rfl
  | peppiJson r =>
    cases r with
    | ok p => simp only [peppiLoop, pstep]; split <;> rfl
    | err e => rfl
    | panic s => rfl
  | startRaw b => simp only [peppiLoop, pstep]; cases gameStart T b <;> rfl
  | endRaw b => simp only [peppiLoop, pstep]; cases gameEnd b <;> rfl
  | metadataJson r => cases r <;> rfl
  | geckoRaw b => simp only [peppiLoop, pstep]; split <;> rfl
  | framesArrow m items =>
    simp only [peppiLoop, pstep]
    cases acc.start with
    | none => rfl
    | some s =>
      simp only []
      split
      · rfl
      · split
        · rfl
        · cases readArrowFrames items <;> rfl

/-- end of input with no end-of-archive marker is never a game -/
theorem peppiLoop_nil_false {μ φ : Type} (T : TextOracle) (skip : Bool) (acc : PAcc μ) :
    ∃ m, peppiLoop T skip false acc ([] : List (PEntry μ φ)) = .err m := by
  simp only [peppiLoop]
  cases hp : acc.peppi with
  | none => exact ⟨"missing peppi", by simp [finish, hp]⟩
  | some p =>
    cases hs : acc.start with
    | none => exact ⟨"missing start", by simp [finish, hp, hs]⟩
    | some s => exact ⟨"missing frames", by simp⟩

/-- with an incomplete marker the loop fails or does what it does with a complete one -/
theorem peppiLoop_trailer {μ φ : Type} (T : TextOracle) (skip : Bool) : ∀ (es : List (PEntry μ φ)) (acc : PAcc μ),
    (∃ m, peppiLoop T skip false acc es = .err m) ∨ peppiLoop T skip false acc es = peppiLoop T skip true acc es := by
  intro es
  induction es with
  | nil => intro acc; exact .inl (peppiLoop_nil_false T skip acc)
  | cons p rest ih =>
    intro acc
    rw [peppiLoop_step, peppiLoop_step]
    cases pstep T skip acc p with
    | inl r => exact .inr rfl
    | inr acc' => exact ih acc'

/-- an entry is *prefix-safe* when cutting its contents short makes the reader fail, go on (into the error of the next
    iterator call), or return what it returns for the whole entry -/
def PrefOK {μ φ : Type} (C : Codec μ φ) (T : TextOracle) (skip : Bool) (e : Bytes × Bytes) : Prop :=
  ∀ (acc : PAcc μ) (k : Nat) (r : Res (PGame μ φ)), pstep T skip acc (classify C (e.1, e.2.take k)) = .inl r →
    (∃ m, r = .err m) ∨ pstep T skip acc (classify C e) = .inl r

/-- **the entry loop on every cut** of the archive written for `es` -/
theorem peppiLoop_cut {μ φ : Type} (C : Codec μ φ) (T : TextOracle) (skip : Bool) :
    ∀ (es : List (Bytes × Bytes)), (∀ e ∈ es, PrefOK C T skip e) → ∀ (n : Nat) (acc : PAcc μ),
      (∃ m, peppiLoop T skip (cutItems es n).2 acc ((cutItems es n).1.map (classifyT C)) = .err m) ∨
      peppiLoop T skip (cutItems es n).2 acc ((cutItems es n).1.map (classifyT C)) = peppiLoop T skip true acc (es.map (classify C)) := by
  intro es
  induction es with
  | nil =>
    intro _ n acc
    simp only [cutItems]
    by_cases h0 : n = 0
    · simp only [h0, ↓reduceIte, List.map_nil]; exact .inl (peppiLoop_nil_false T skip acc)
    · by_cases h1 : n < 512
      · simp only [h0, h1, ↓reduceIte, List.map_cons, List.map_nil, classifyT]; exact .inl ⟨_, rfl⟩
      · simp only [h0, h1, ↓reduceIte, List.map_nil]
        by_cases h2 : 1024 ≤ n
        · have hd : decide (1024 ≤ n) = true := by simp [h2]
          rw [hd]; exact .inr rfl
        · have hd : decide (1024 ≤ n) = false := by simp [h2]
          rw [hd]; exact .inl (peppiLoop_nil_false T skip acc)
  | cons e t ih =>
    intro hH n acc
    have hHe := hH e (by simp)
    have hHt : ∀ e' ∈ t, PrefOK C T skip e' := fun e' he' => hH e' (by simp [he'])
    simp only [cutItems]
    by_cases h0 : n = 0
    · simp only [h0, ↓reduceIte, List.map_nil]; exact .inl (peppiLoop_nil_false T skip acc)
    · by_cases h1 : n < 512
      · simp only [h0, h1, ↓reduceIte, List.map_cons, List.map_nil, classifyT]; exact .inl ⟨_, rfl⟩
      · by_cases h2 : n < (tarEntry e).length
        · simp only [h0, h1, h2, ↓reduceIte, List.map_cons, List.map_nil, classifyT]
          rw [peppiLoop_step, peppiLoop_step (p := classify C e)]
          cases hp : pstep T skip acc (classify C (e.1, e.2.take (n - 512))) with
          | inr acc' => exact .inl ⟨_, rfl⟩
          | inl r =>
            rcases hHe acc (n - 512) r hp with ⟨m, hm⟩ | hfull
            · exact .inl ⟨m, hm⟩
            · rw [hfull]; exact .inr rfl
        · simp only [h0, h1, h2, ↓reduceIte, List.map_cons, classifyT]
          rw [peppiLoop_step, peppiLoop_step (p := classify C e)]
          cases hp : pstep T skip acc (classify C (e.1, e.2)) with
          | inl r => exact .inr rfl
          | inr acc' => exact ih hHt (n - (tarEntry e).length) acc'

/-! ### the written entries are prefix-safe -/

theorem prefOK_of_continue {μ φ : Type} (C : Codec μ φ) (T : TextOracle) (skip : Bool) (e : Bytes × Bytes)
    (h : ∀ (acc : PAcc μ) (b : Bytes) (r : Res (PGame μ φ)), pstep T skip acc (classify C (e.1, b)) = .inl r → ∃ m, r = .err m) :
    PrefOK C T skip e := fun acc _ r hr => .inl (h acc _ r hr)

theorem classify_peppi {μ φ : Type} (C : Codec μ φ) (b : Bytes) : classify C (N_PEPPI, b) = .peppiJson (C.decPeppi b) := by simp [classify]
theorem classify_meta {μ φ : Type} (C : Codec μ φ) (b : Bytes) : classify C (N_META, b) = .metadataJson (C.decMeta b) := by
  have h1 : ¬ N_META = N_PEPPI := by decide
  have h2 : ¬ N_META = N_STARTR := by decide
  have h3 : ¬ N_META = N_ENDR := by decide
  simp [classify, h1, h2, h3]
theorem classify_startj {μ φ : Type} (C : Codec μ φ) (b : Bytes) : classify C (N_STARTJ, b) = .other := by
  have a1 : ¬ N_STARTJ = N_PEPPI := by decide
  have a2 : ¬ N_STARTJ = N_STARTR := by decide
  have a3 : ¬ N_STARTJ = N_ENDR := by decide
  have a4 : ¬ N_STARTJ = N_META := by decide
  have a5 : ¬ N_STARTJ = N_GECKO := by decide
  have a6 : ¬ N_STARTJ = N_FRAMES := by decide
  simp [classify, a1, a2, a3, a4, a5, a6]
theorem classify_startr {μ φ : Type} (C : Codec μ φ) (b : Bytes) : classify C (N_STARTR, b) = .startRaw b := by
  have a1 : ¬ N_STARTR = N_PEPPI := by decide
  simp [classify, a1]
theorem classify_endj {μ φ : Type} (C : Codec μ φ) (b : Bytes) : classify C (N_ENDJ, b) = .other := by
  have a1 : ¬ N_ENDJ = N_PEPPI := by decide
  have a2 : ¬ N_ENDJ = N_STARTR := by decide
  have a3 : ¬ N_ENDJ = N_ENDR := by decide
  have a4 : ¬ N_ENDJ = N_META := by decide
  have a5 : ¬ N_ENDJ = N_GECKO := by decide
  have a6 : ¬ N_ENDJ = N_FRAMES := by decide
  simp [classify, a1, a2, a3, a4, a5, a6]
theorem classify_endr {μ φ : Type} (C : Codec μ φ) (b : Bytes) : classify C (N_ENDR, b) = .endRaw b := by
  have a1 : ¬ N_ENDR = N_PEPPI := by decide
  have a2 : ¬ N_ENDR = N_STARTR := by decide
  simp [classify, a1, a2]
theorem classify_gecko {μ φ : Type} (C : Codec μ φ) (b : Bytes) : classify C (N_GECKO, b) = .geckoRaw b := by
  have a1 : ¬ N_GECKO = N_PEPPI := by decide
  have a2 : ¬ N_GECKO = N_STARTR := by decide
  have a3 : ¬ N_GECKO = N_ENDR := by decide
  have a4 : ¬ N_GECKO = N_META := by decide
  simp [classify, a1, a2, a3, a4]
theorem classify_frames {μ φ : Type} (C : Codec μ φ) (b : Bytes) : classify C (N_FRAMES, b) = .framesArrow (C.decFrames b).1 (C.decFrames b).2 := by
  have a1 : ¬ N_FRAMES = N_PEPPI := by decide
  have a2 : ¬ N_FRAMES = N_STARTR := by decide
  have a3 : ¬ N_FRAMES = N_ENDR := by decide
  have a4 : ¬ N_FRAMES = N_META := by decide
  have a5 : ¬ N_FRAMES = N_GECKO := by decide
  simp [classify, a1, a2, a3, a4, a5]

theorem slppEntries_prefOK {μ φ : Type} (C : CodecT μ φ) (T : TextOracle) (skip : Bool) (g : PGame μ φ) (startBytes : Bytes)
    (endBytes : Option Bytes) : ∀ e ∈ slppEntries C.toCodec g startBytes endBytes, PrefOK C.toCodec T skip e := by
  have k1 : ∀ x, PrefOK C.toCodec T skip (N_PEPPI, x) := fun x => prefOK_of_continue _ T skip _ (by
    intro acc b r hr
    simp only [classify_peppi, pstep] at hr
    cases hd : C.decPeppi b with
    | ok p =>
      rw [hd] at hr; simp only at hr
      split at hr
      · cases hr
      · cases hr; exact ⟨_, rfl⟩
    | err e => rw [hd] at hr; cases hr; exact ⟨_, rfl⟩
    | panic s => exact absurd hd (C.peppi_np b s))
  have k2 : ∀ x, PrefOK C.toCodec T skip (N_META, x) := fun x => prefOK_of_continue _ T skip _ (by
    intro acc b r hr
    simp only [classify_meta, pstep] at hr
    cases hd : C.decMeta b with
    | ok p => rw [hd] at hr; cases hr
    | err e => rw [hd] at hr; cases hr; exact ⟨_, rfl⟩
    | panic s => exact absurd hd (C.meta_np b s))
  have k3 : ∀ x, PrefOK C.toCodec T skip (N_STARTJ, x) := fun x => prefOK_of_continue _ T skip _ (by
    intro acc b r hr; simp only [classify_startj, pstep] at hr; cases hr)
  have k4 : ∀ x, PrefOK C.toCodec T skip (N_STARTR, x) := fun x => prefOK_of_continue _ T skip _ (by
    intro acc b r hr
    simp only [classify_startr, pstep] at hr
    cases hd : gameStart T b with
    | ok p => rw [hd] at hr; cases hr
    | err e => rw [hd] at hr; cases hr; exact ⟨_, rfl⟩
    | panic s => exact absurd hd (gameStart_noPanic T b s))
  have k5 : ∀ x, PrefOK C.toCodec T skip (N_ENDJ, x) := fun x => prefOK_of_continue _ T skip _ (by
    intro acc b r hr; simp only [classify_endj, pstep] at hr; cases hr)
  have k6 : ∀ x, PrefOK C.toCodec T skip (N_ENDR, x) := fun x => prefOK_of_continue _ T skip _ (by
    intro acc b r hr
    simp only [classify_endr, pstep] at hr
    cases hd : gameEnd b with
    | ok p => rw [hd] at hr; cases hr
    | err e => rw [hd] at hr; cases hr; exact ⟨_, rfl⟩
    | panic s => exact absurd hd (gameEnd_noPanic b s))
  have k7 : ∀ x, PrefOK C.toCodec T skip (N_GECKO, x) := fun x => prefOK_of_continue _ T skip _ (by
    intro acc b r hr
    simp only [classify_gecko, pstep] at hr
    split at hr
    · cases hr; exact ⟨_, rfl⟩
    · cases hr)
  have k8 : ∀ f, PrefOK C.toCodec T skip (N_FRAMES, C.encFrames f) := by
    intro f acc k r hr
    simp only [classify_frames, pstep, C.frames_rt] at hr ⊢
    cases hs : acc.start with
    | none => rw [hs] at hr; cases hr; exact .inl ⟨_, rfl⟩
    | some s =>
      rw [hs] at hr
      simp only at hr ⊢
      cases skip with
      | true => simp only [↓reduceIte] at hr ⊢; exact .inr hr
      | false =>
        simp only [Bool.false_eq_true, ↓reduceIte] at hr ⊢
        cases hm : (C.decFrames ((C.encFrames f).take k)).1 with
        | false => rw [hm] at hr; simp only [Bool.not_false, ↓reduceIte] at hr; cases hr; exact .inl ⟨_, rfl⟩
        | true =>
          rw [hm] at hr
          simp only [Bool.not_true, Bool.false_eq_true, ↓reduceIte] at hr
          cases hd : readArrowFrames (C.decFrames ((C.encFrames f).take k)).2 with
          | ok f' =>
            rw [hd] at hr
            have := C.frames_prefix f k f' hm hd
            subst this
            simp only [Bool.not_true, Bool.false_eq_true, ↓reduceIte, readArrowFrames, readArrowLoop]
            exact .inr hr
          | err e => rw [hd] at hr; cases hr; exact .inl ⟨_, rfl⟩
          | panic s => exact absurd hd (readArrowFrames_noPanic _ s)
  intro e he
  simp only [slppEntries, List.mem_append, List.mem_cons, List.not_mem_nil, or_false] at he
  rcases he with (rfl | rfl | rfl | rfl) | he | he | he
  · exact k1 _
  · exact k2 _
  · exact k3 _
  · exact k4 _
  · split at he
    · simp only [List.mem_cons, List.not_mem_nil, or_false] at he; rcases he with rfl | rfl
      · exact k5 _
      · exact k6 _
    · cases he
  · split at he
    · simp only [List.mem_singleton] at he; subst he; exact k7 _
    · cases he
  · split at he
    · simp only [List.mem_singleton] at he; subst he; exact k8 _
    · cases he

/-- **C07, `.slpp`, every cut, byte level**: reading any prefix of the archive `write` produced is an error or the complete
    game (the same value the whole archive gives) — never anything in between, and never a panic.  -/
theorem slppReadL_cut {μ φ : Type} (C : CodecT μ φ) (T : TextOracle) (g : PGame μ φ) (startBytes : Bytes) (endBytes : Option Bytes)
    (hstart : gameStart T startBytes = .ok g.start)
    (hend : endBytes.map gameEnd = g.fend.map Res.ok)
    (hgecko : ∀ c, g.gecko = some c → c.2 < 2 ^ 32)
    (hs : SizesOK C.toCodec g startBytes endBytes) (skip : Bool) (n : Nat) :
    (∃ m, slppReadL C.toCodec T skip ((slppWrite C.toCodec g startBytes endBytes).take n) = .err m) ∨
    slppReadL C.toCodec T skip ((slppWrite C.toCodec g startBytes endBytes).take n) = .ok (if skip then { g with frames := none } else { g with frames := g.frames.map C.norm }) := by
  have hendS : endBytes.isSome = g.fend.isSome := by
    cases endBytes <;> cases hf : g.fend <;> simp [hf] at hend ⊢
  have hok := slppEntries_ok C.toCodec g startBytes endBytes hs
  have hnames : ∀ e ∈ slppEntries C.toCodec g startBytes endBytes, e.1.length ≤ 100 := fun e he => (hok e he).nameLen.2
  have hL := tarArchive_length_ge (slppEntries C.toCodec g startBytes endBytes) hnames
  unfold slppReadL
  have hA : slppWrite C.toCodec g startBytes endBytes = tarArchive (slppEntries C.toCodec g startBytes endBytes) := rfl
  simp only []
  -- any fuel above `length / 512` scans the prefix alike; take one that also exceeds the entry count
  have hpl : ((tarArchive (slppEntries C.toCodec g startBytes endBytes)).take n).length ≤
      (tarArchive (slppEntries C.toCodec g startBytes endBytes)).length := by rw [List.length_take]; omega
  have hdiv := Nat.div_le_div_right (c := 512) hpl
  rw [hA, tarScan_fuel _ _ (by omega) ((tarArchive (slppEntries C.toCodec g startBytes endBytes)).length / 512 + 2) (by omega),
    tarScan_cut _ hok _ (by omega) n]
  rcases peppiLoop_cut C.toCodec T skip _ (slppEntries_prefOK C T skip g startBytes endBytes) n {} with h | h
  · exact .inl h
  · right
    unfold peppiRead
    rw [h, classify_written C.toCodec g startBytes endBytes hendS]
    cases skip with
    | false => simpa [peppiRead] using peppiRead_written T { g with frames := g.frames.map C.norm } startBytes endBytes true hstart hend hgecko (fun _ => rfl)
    | true => simpa [peppiRead] using peppiRead_written_skip T { g with frames := g.frames.map C.norm } startBytes endBytes true hstart hend hgecko (fun _ => rfl)

/-- on the whole archive the lazy reader returns the game (it agrees with `slppRead_written`) -/
theorem slppReadL_written {μ φ : Type} (C : CodecT μ φ) (T : TextOracle) (g : PGame μ φ) (startBytes : Bytes) (endBytes : Option Bytes)
    (hstart : gameStart T startBytes = .ok g.start)
    (hend : endBytes.map gameEnd = g.fend.map Res.ok)
    (hgecko : ∀ c, g.gecko = some c → c.2 < 2 ^ 32)
    (hs : SizesOK C.toCodec g startBytes endBytes) (skip : Bool) :
    slppReadL C.toCodec T skip (slppWrite C.toCodec g startBytes endBytes) = .ok (if skip then { g with frames := none } else { g with frames := g.frames.map C.norm }) := by
  have hendS : endBytes.isSome = g.fend.isSome := by
    cases endBytes <;> cases hf : g.fend <;> simp [hf] at hend ⊢
  have hok := slppEntries_ok C.toCodec g startBytes endBytes hs
  have hnames : ∀ e ∈ slppEntries C.toCodec g startBytes endBytes, e.1.length ≤ 100 := fun e he => (hok e he).nameLen.2
  have hL := tarArchive_length_ge (slppEntries C.toCodec g startBytes endBytes) hnames
  have hA : slppWrite C.toCodec g startBytes endBytes = tarArchive (slppEntries C.toCodec g startBytes endBytes) := rfl
  unfold slppReadL
  simp only []
  have ht : tarArchive (slppEntries C.toCodec g startBytes endBytes) =
      (tarArchive (slppEntries C.toCodec g startBytes endBytes)).take (tarArchive (slppEntries C.toCodec g startBytes endBytes)).length :=
    (List.take_length).symm
  rw [hA, ht, List.length_take, Nat.min_self, tarScan_cut _ hok _ (by omega), cutItems_full _ hnames]
  simp only [List.map_map]
  have : (slppEntries C.toCodec g startBytes endBytes).map (classifyT C.toCodec ∘ fun e => TItem.entry e.1 e.2) =
      (slppEntries C.toCodec g startBytes endBytes).map (classify C.toCodec) := by
    apply List.map_congr_left; intro e _; rfl
  rw [this, classify_written C.toCodec g startBytes endBytes hendS]
  cases skip with
  | false => simpa using peppiRead_written T { g with frames := g.frames.map C.norm } startBytes endBytes true hstart hend hgecko (fun _ => rfl)
  | true => simpa using peppiRead_written_skip T { g with frames := g.frames.map C.norm } startBytes endBytes true hstart hend hgecko (fun _ => rfl)

/-! ### no byte string makes the reader panic -/

theorem classify_cases {μ φ : Type} (C : Codec μ φ) (e : Bytes × Bytes) :
    classify C e = .peppiJson (C.decPeppi e.2) ∨ classify C e = .startRaw e.2 ∨ classify C e = .endRaw e.2 ∨
    classify C e = .metadataJson (C.decMeta e.2) ∨ classify C e = .geckoRaw e.2 ∨
    classify C e = .framesArrow (C.decFrames e.2).1 (C.decFrames e.2).2 ∨ classify C e = .other := by
  unfold classify
  split
  · exact .inl rfl
  · split
    · exact .inr (.inl rfl)
    · split
      · exact .inr (.inr (.inl rfl))
      · split
        · exact .inr (.inr (.inr (.inl rfl)))
        · split
          · exact .inr (.inr (.inr (.inr (.inl rfl))))
          · split
            · exact .inr (.inr (.inr (.inr (.inr (.inl rfl)))))
            · exact .inr (.inr (.inr (.inr (.inr (.inr rfl)))))

theorem finish_noPanic {μ φ : Type} (acc : PAcc μ) (f : Option φ) (s : String) : finish acc f ≠ .panic s := by
  unfold finish
  split
  · simp
  · split <;> simp

theorem pstep_noPanic {μ φ : Type} (C : CodecT μ φ) (T : TextOracle) (skip : Bool) (acc : PAcc μ) (it : TItem) (r : Res (PGame μ φ))
    (h : pstep T skip acc (classifyT C.toCodec it) = .inl r) (s : String) : r ≠ .panic s := by
  cases it with
  | broken => simp only [classifyT, pstep] at h; cases h; simp
  | entry n b =>
    simp only [classifyT] at h
    rcases classify_cases C.toCodec (n, b) with hc | hc | hc | hc | hc | hc | hc <;> rw [hc] at h <;> simp only [pstep] at h
    · cases hd : C.decPeppi b with
      | ok p => rw [hd] at h; simp only at h; split at h <;> cases h; simp
      | err e => rw [hd] at h; cases h; simp
      | panic x => exact absurd hd (C.peppi_np b x)
    · cases hd : gameStart T b with
      | ok p => rw [hd] at h; cases h
      | err e => rw [hd] at h; cases h; simp
      | panic x => exact absurd hd (gameStart_noPanic T b x)
    · cases hd : gameEnd b with
      | ok p => rw [hd] at h; cases h
      | err e => rw [hd] at h; cases h; simp
      | panic x => exact absurd hd (gameEnd_noPanic b x)
    · cases hd : C.decMeta b with
      | ok p => rw [hd] at h; cases h
      | err e => rw [hd] at h; cases h; simp
      | panic x => exact absurd hd (C.meta_np b x)
    · split at h <;> cases h; simp
    · cases hs : acc.start with
      | none => rw [hs] at h; cases h; simp
      | some st =>
        rw [hs] at h
        simp only at h
        split at h
        · cases h; exact finish_noPanic _ _ s
        · split at h
          · cases h; simp
          · cases hd : readArrowFrames (C.decFrames b).2 with
            | ok f => rw [hd] at h; cases h; exact finish_noPanic _ _ s
            | err e => rw [hd] at h; cases h; simp
            | panic x => exact absurd hd (readArrowFrames_noPanic _ x)
    · cases h

theorem peppiLoop_noPanic {μ φ : Type} (C : CodecT μ φ) (T : TextOracle) (skip t : Bool) :
    ∀ (items : List TItem) (acc : PAcc μ) (s : String), peppiLoop T skip t acc (items.map (classifyT C.toCodec)) ≠ .panic s := by
  intro items
  induction items with
  | nil =>
    intro acc s
    simp only [List.map_nil, peppiLoop]
    split
    · split
      · exact finish_noPanic _ _ s
      · simp
    · exact finish_noPanic _ _ s
  | cons it rest ih =>
    intro acc s
    rw [List.map_cons, peppiLoop_step]
    cases hp : pstep T skip acc (classifyT C.toCodec it) with
    | inl r => exact pstep_noPanic C T skip acc it r hp s
    | inr acc' => exact ih acc' s

/-- **the `.slpp` reader returns on every byte string**: a game or an error, never a panic (the function is total: it
    terminates), whatever the bytes are — provided the external decoders do not panic -/
theorem slppReadL_noPanic {μ φ : Type} (C : CodecT μ φ) (T : TextOracle) (skip : Bool) (bs : Bytes) (s : String) :
    slppReadL C.toCodec T skip bs ≠ .panic s := by
  unfold slppReadL peppiRead
  exact peppiLoop_noPanic C T skip _ _ _ s

/-! ### the laws of `CodecT` are jointly satisfiable -/

/-- frames as `1, b` per byte, terminated by `0`: a decoder can tell a truncated stream -/
def toyEncF : Bytes → Bytes
  | [] => [0]
  | b :: t => 1 :: b :: toyEncF t

/-- `none`: the stream ended before its terminator -/
def toyDecF : Bytes → Option Bytes
  | [] => none
  | 0 :: _ => some []
  | [_] => none
  | _ :: b :: rest => (toyDecF rest).map (b :: ·)

theorem toyDecF_one (b : UInt8) (rest : Bytes) : toyDecF (1 :: b :: rest) = (toyDecF rest).map (b :: ·) := by
  rw [toyDecF]; simp

theorem toyDecF_enc (f : Bytes) : toyDecF (toyEncF f) = some f := by
  induction f with
  | nil => rfl
  | cons b t ih => simp [toyEncF, toyDecF, ih]

theorem toyDecF_prefix (f : Bytes) : ∀ (n : Nat) (f' : Bytes), toyDecF ((toyEncF f).take n) = some f' → f' = f := by
  induction f with
  | nil =>
    intro n f' h
    cases n with
    | zero => simp [toyEncF, toyDecF] at h
    | succ n => simp [toyEncF, toyDecF] at h; exact h
  | cons b t ih =>
    intro n f' h
    match n, h with
    | 0, h => simp [toyEncF, toyDecF] at h
    | 1, h => simp [toyEncF, toyDecF] at h
    | n + 2, h =>
      simp only [toyEncF, List.take_succ_cons, toyDecF_one] at h
      cases hd : toyDecF ((toyEncF t).take n) with
      | none => rw [hd] at h; simp at h
      | some x =>
        rw [hd] at h
        simp only [Option.map_some, Option.some.injEq] at h
        rw [← h, ih n x hd]

def toyDecFrames (bs : Bytes) : Bool × List (SItem Bytes) :=
  match toyDecF bs with
  | some f => (true, [.chunk f])
  | none => (true, [.waiting])

/-- a codec that satisfies all the laws, those of the round trip and those of truncation -/
def toyCodecT : CodecT Bytes Bytes where
  toCodec := { toyCodec with encFrames := toyEncF, decFrames := toyDecFrames,
                             norm := fun f => f,
                             frames_rt := fun f => by simp [toyDecFrames, toyDecF_enc] }
  peppi_np b s := by
    show toyDecPeppi b ≠ _
    unfold toyDecPeppi
    split <;> simp
  meta_np b s := by
    show (match b with | 0 :: _ => Res.ok none | 1 :: b => .ok (some b) | _ => .err "json") ≠ _
    split <;> simp
  frames_prefix f n f' _ h := by
    have h' : readArrowFrames (toyDecFrames ((toyEncF f).take n)).2 = .ok f' := h
    unfold toyDecFrames at h'
    cases hd : toyDecF ((toyEncF f).take n) with
    | none => rw [hd] at h'; simp [readArrowFrames, readArrowLoop] at h'
    | some x =>
      rw [hd] at h'
      simp only [readArrowFrames, readArrowLoop, Res.ok.injEq] at h'
      rw [← h']; exact toyDecF_prefix f n x hd

/-- a concrete game for the non-vacuity check: 3.17 start block, no end, metadata, frames -/
def exPGame : PGame Bytes Bytes :=
  { start := startOf (exBlock 3 17 760), fend := none, metadata := some [1, 2], gecko := some ([9, 9, 9], 3),
    frames := some [5, 6, 7], hash := none, quirks := some true }

instance {μ φ : Type} (C : Codec μ φ) (g : PGame μ φ) (sb : Bytes) (eb : Option Bytes) : Decidable (SizesOK C g sb eb) := by
  unfold SizesOK; exact inferInstance

/-- the hypotheses of `slppReadL_cut` are met by a concrete game and the toy codec; so every cut of that archive is an error
    or the whole game -/
theorem exPGame_cut (skip : Bool) (n : Nat) :
    (∃ m, slppReadL toyCodecT.toCodec T0 skip ((slppWrite toyCodecT.toCodec exPGame (exBlock 3 17 760) none).take n) = .err m) ∨
    slppReadL toyCodecT.toCodec T0 skip ((slppWrite toyCodecT.toCodec exPGame (exBlock 3 17 760) none).take n) =
      .ok (if skip then { exPGame with frames := none } else { exPGame with frames := exPGame.frames.map toyCodecT.norm }) := by
  have h1 : (gameStart T0 (exBlock 3 17 760)).isOk = true := by decide +kernel
  have h2 : ∀ c, exPGame.gecko = some c → c.2 < 2 ^ 32 := by
    intro c h; simp only [exPGame, Option.some.injEq] at h; subst h; decide
  have h3 : SizesOK toyCodecT.toCodec exPGame (exBlock 3 17 760) none := by
    intro e he
    have hb : (exBlock 3 17 760).length = 760 := by decide +kernel
    simp only [slppEntries, exPGame, List.cons_append, List.nil_append, List.mem_cons, List.not_mem_nil, or_false] at he
    rcases he with rfl | rfl | rfl | rfl | rfl | rfl
    · decide
    · decide
    · decide
    · show (exBlock 3 17 760).length < _; rw [hb]; decide
    · decide
    · decide
  have hstart : gameStart T0 (exBlock 3 17 760) = .ok exPGame.start := by
    unfold exPGame; dsimp only; exact startOf_ok _ h1
  have hend : (none : Option Bytes).map gameEnd = exPGame.fend.map Res.ok := rfl
  exact slppReadL_cut toyCodecT T0 exPGame (exBlock 3 17 760) none hstart hend h2 h3 skip n

theorem parseMeta_noPanic (b : Bytes) (s : String) : parseMeta b ≠ .panic s := by
  unfold parseMeta
  split
  · simp
  · split <;> simp

/-- any `CodecT` with its `peppi.json` and `metadata.json` parts replaced by the JSON text models: the round-trip laws and
    the no-panic laws of those entries are theorems (`decPeppiJ_enc`, `parseMeta_json`, `decPeppiJ_noPanic`,
    `parseMeta_noPanic`); what remains assumed is the Arrow IPC part -/
def CodecT.withJson {φ : Type} (C : CodecT KVs φ) : CodecT KVs φ :=
  { toCodec := C.toCodec.withJson, peppi_np := decPeppiJ_noPanic, meta_np := parseMeta_noPanic, frames_prefix := C.frames_prefix }

/-- the byte-level round trip with both JSON entries the reader looks at as real JSON text -/
theorem slppRead_written_json2 {φ : Type} (C : Codec KVs φ) (T : TextOracle) (g : PGame KVs φ) (startBytes : Bytes) (endBytes : Option Bytes)
    (hstart : gameStart T startBytes = .ok g.start)
    (hend : endBytes.map gameEnd = g.fend.map Res.ok)
    (hgecko : ∀ c, g.gecko = some c → c.2 < 2 ^ 32)
    (hs : SizesOK C.withJson g startBytes endBytes) (skip : Bool) :
    slppRead C.withJson T skip (slppWrite C.withJson g startBytes endBytes) = .ok (if skip then { g with frames := none } else { g with frames := g.frames.map C.norm }) :=
  slppRead_written C.withJson T g startBytes endBytes hstart hend hgecko hs skip

/-- C07 for `.slpp` with the two JSON entries as real JSON text -/
theorem slppReadL_cut_json {φ : Type} (C : CodecT KVs φ) (T : TextOracle) (g : PGame KVs φ) (startBytes : Bytes) (endBytes : Option Bytes)
    (hstart : gameStart T startBytes = .ok g.start)
    (hend : endBytes.map gameEnd = g.fend.map Res.ok)
    (hgecko : ∀ c, g.gecko = some c → c.2 < 2 ^ 32)
    (hs : SizesOK C.withJson.toCodec g startBytes endBytes) (skip : Bool) (n : Nat) :
    (∃ m, slppReadL C.withJson.toCodec T skip ((slppWrite C.withJson.toCodec g startBytes endBytes).take n) = .err m) ∨
    slppReadL C.withJson.toCodec T skip ((slppWrite C.withJson.toCodec g startBytes endBytes).take n) =
      .ok (if skip then { g with frames := none } else { g with frames := g.frames.map C.norm }) :=
  slppReadL_cut C.withJson T g startBytes endBytes hstart hend hgecko hs skip n

#print axioms slppReadL_cut
#print axioms slppReadL_written
#print axioms exPGame_cut
#print axioms slppReadL_noPanic
#print axioms slppReadL_cut_json
#print axioms slppRead_written_json2
end Peppi
