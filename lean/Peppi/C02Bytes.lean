import Peppi.SlppCut
import Peppi.Lemmas.ArrowFrame
import Peppi.Lemmas.Unified2
import Peppi.Lemmas.Lengths
/-! **C02 end to end, at byte level**: `.slp` bytes → `slippi::read` → `peppi::write` → `.slpp` bytes → `peppi::read` →
    `slippi::write` → the same `.slp` bytes, for the canonical file of every well-formed replay of every version up to the
    maximum, with or without Gecko block, Game End, metadata, frames.

    The chain uses: the read theorem of C04 (`C04_any`), the Arrow export / import of the frame set with the IPC validity
    normalisation in between (`fromF_norm_intoF`, `fromF'_norm_intoF'`), the byte-level `.slpp` round trip
    (`slppRead_written`: tar proved, `peppi.json` / `metadata.json` as JSON text models, the Arrow IPC stream a codec whose
    round trip is the normalisation `normF`), and the write theorem of C01 (`write_game_any`). -/
namespace Peppi
open Extracted

/-- number of members of a generated struct that exist at version `v` -/
def nVis (v : Ver) (L : List Fld) : Nat := (L.filter (visible v)).length

theorem RowOK_length (v : Ver) : ∀ (L : List Fld) (vals : List Nat), RowOK v L vals → vals.length = nVis v L := by
  intro L
  induction L with
  | nil => intro vals h; simp only [RowOK] at h; subst h; rfl
  | cons f fs ih =>
    intro vals h
    simp only [RowOK] at h
    by_cases hv : visible v f = true
    · simp only [hv, ↓reduceIte] at h
      obtain ⟨x, xs, rfl, _, hr⟩ := h
      simp only [nVis, List.filter_cons, hv, ↓reduceIte, List.length_cons, Nat.add_right_cancel_iff]
      exact ih xs hr
    · simp only [hv, Bool.false_eq_true, ↓reduceIte] at h
      simp only [nVis, List.filter_cons, hv, Bool.false_eq_true, ↓reduceIte]
      exact ih vals h

def widthsOf (v : Ver) : Widths :=
  ⟨nVis v Pre.readPush, nVis v Post.readPush, nVis v Start.readPush, nVis v End.readPush, nVis v Item.readPush⟩

theorem colsOf_rowsOK (v : Ver) (hist : List (Option CharOcc)) (h : ∀ c ∈ hist, ∀ x, c = some x → OccOK v x) :
    RowsOK (widthsOf v).pre (colsOf hist).pre ∧ RowsOK (widthsOf v).post (colsOf hist).post := by
  constructor
  · intro r hr vs hvs
    simp only [colsOf, List.mem_map] at hr
    obtain ⟨c, hc, rfl⟩ := hr
    cases c with
    | none => simp at hvs
    | some x =>
      simp only [Option.map_some, Option.some.injEq] at hvs
      subst hvs
      exact RowOK_length v _ _ (h _ hc x rfl).1
  · intro r hr vs hvs
    simp only [colsOf, List.mem_map] at hr
    obtain ⟨c, hc, rfl⟩ := hr
    cases c with
    | none => simp at hvs
    | some x =>
      simp only [Option.map_some, Option.some.injEq] at hvs
      subst hvs
      exact RowOK_length v _ _ (h _ hc x rfl).2

/-- the columns of a history of well-formed frame occurrences have rows of the version's widths -/
theorem expFrames_rowsOK (v : Ver) (shape : List PortOccupancy) (h : List FrameOcc)
    (hok : ∀ o ∈ h, o.OK v (nSlots shape)) : FrameRowsOK (widthsOf v) (expFrames v shape h) := by
  have hflat : ∀ d ∈ expFlat shape h, RowsOK (widthsOf v).pre d.pre ∧ RowsOK (widthsOf v).post d.post := by
    intro d hd
    simp only [expFlat, List.mem_map, List.mem_range] at hd
    obtain ⟨c, _, rfl⟩ := hd
    apply colsOf_rowsOK
    intro e he x hx
    simp only [histAt, List.mem_map] at he
    obtain ⟨o, ho, rfl⟩ := he
    have hmem : (some x) ∈ o.chars := by
      cases hg : o.chars[c]? with
      | none => rw [hg] at hx; simp at hx
      | some y =>
        rw [hg] at hx
        simp only [Option.join_some] at hx
        subst hx
        exact List.mem_of_getElem? hg
    exact (hok o ho).occ _ hmem x rfl
  have hlen : (expFlat shape h).length = nSlots shape := by simp [expFlat]
  refine ⟨?_, ?_, ?_, ?_, ?_⟩
  · intro p hp
    obtain ⟨h1, h2⟩ := rebuild_mem shape (expFlat shape h) hlen p hp
    exact ⟨(hflat _ h1).1, (hflat _ h1).2, fun d hd => hflat _ (h2 d hd)⟩
  · intro sc hsc
    simp only [expFrames] at hsc
    split at hsc <;> simp at hsc
    subst hsc
    intro r hr vs hvs
    simp only [List.mem_map] at hr
    obtain ⟨o, ho, rfl⟩ := hr
    simp only [Option.some.injEq] at hvs; subst hvs
    exact RowOK_length v _ _ (hok o ho).start
  · intro ec hec
    simp only [expFrames] at hec
    split at hec <;> simp at hec
    subst hec
    intro r hr vs hvs
    simp only [List.mem_map] at hr
    obtain ⟨o, ho, rfl⟩ := hr
    simp only [Option.some.injEq] at hvs; subst hvs
    exact RowOK_length v _ _ (hok o ho).fend
  · intro it hit
    simp only [expFrames] at hit
    split at hit <;> simp at hit
    subst hit
    intro r hr vs hvs
    simp only [List.mem_map, List.mem_flatMap] at hr
    obtain ⟨row, ⟨o, ho, hrow⟩, rfl⟩ := hr
    simp only [Option.some.injEq] at hvs; subst hvs
    exact RowOK_length v _ _ ((hok o ho).items _ hrow)
  · simp only [expFrames]; split <;> rfl

/-- `peppi::write`'s view of a game: the frame set exported to Arrow when there is at least one frame -/
def toP (g : Game) (hash : Option String) : PGame KVs AFrame :=
  { start := g.start, fend := g.fend, metadata := g.metadata, gecko := g.gecko.map fun k => (k.bytes, k.actualSize),
    frames := if g.frames.id = [] then none else some (intoF' (widthsOf g.start.version) g.frames),
    hash := hash, quirks := g.doubleGameEnd }

/-- `peppi::read`'s result as a game: the frame set imported from Arrow, or the empty frame set built from the start block -/
def ofP (p : PGame KVs AFrame) : Game :=
  { start := p.start, fend := p.fend, metadata := p.metadata, gecko := p.gecko.map fun c => ⟨c.1, c.2⟩,
    frames := match p.frames with
      | some a => fromF' (p.start.version.gte 3 0) a
      | none => FCols.new p.start.version (portOccupancy p.start),
    hashedLen := none, doubleGameEnd := p.quirks }

theorem gameAny_frames (r : Replay) (s : Start) (ge : Option End) (gk : Option GeckoBlocks) :
    (r.gameAny s ge gk).frames = expFrames s.version (portOccupancy s) r.frames ∧ (r.gameAny s ge gk).start = s ∧
    (r.gameAny s ge gk).fend = ge ∧ (r.gameAny s ge gk).hashedLen = none := by
  cases gk <;> simp [Replay.gameAny, Replay.gameG, Replay.game]

/-- export, IPC normalisation, import give back the columns of any well-formed history, at every version -/
theorem import_export (v : Ver) (shape : List PortOccupancy) (h : List FrameOcc) (hok : ∀ o ∈ h, o.OK v (nSlots shape)) :
    fromF' (v.gte 3 0) (normF (intoF' (widthsOf v) (expFrames v shape h))) = expFrames v shape h := by
  have hrows := expFrames_rowsOK v shape h hok
  by_cases hw : (widthsOf v).fend = 0
  · by_cases h30 : v.gte 3 0 = true
    · have hfe : (expFrames v shape h).fend = some (h.map fun o => some o.fend) := by simp [expFrames, h30]
      have hpres : (h.map fun o => some o.fend) = List.replicate (expFrames v shape h).id.length (some []) := by
        have hid : (expFrames v shape h).id.length = h.length := by simp [expFrames]
        rw [hid]
        apply List.ext_getElem (by simp)
        intro i h1 h2
        have hi : i < h.length := by simpa using h1
        simp only [List.getElem_map, List.getElem_replicate, Option.some.injEq]
        have hl := RowOK_length v _ _ (hok h[i] (List.getElem_mem hi)).fend
        have hw' : nVis v End.readPush = 0 := hw
        rw [hw'] at hl
        exact List.eq_nil_of_length_eq_zero hl
      rw [h30]
      exact fromF'_norm_intoF' (widthsOf v) _ hrows hw _ hfe hpres
    · have h30' : v.gte 3 0 = false := by simpa using h30
      have hfe : (expFrames v shape h).fend = none := by simp [expFrames, h30']
      rw [h30']
      unfold fromF' intoF'
      simp only [hw, ↓reduceIte]
      have hn : (normF { (intoF (widthsOf v) (expFrames v shape h)) with fend := none }).fend = none := rfl
      simp only [hn, Bool.false_eq_true, ↓reduceIte]
      have : fromF (normF { (intoF (widthsOf v) (expFrames v shape h)) with fend := none }) =
          { (fromF (normF (intoF (widthsOf v) (expFrames v shape h)))) with fend := none } := rfl
      rw [this, fromF_norm_intoF _ _ hrows]
      cases hf : expFrames v shape h with
      | mk id ports start fend itemOff item => rw [hf] at hfe; simp only at hfe; subst hfe; rfl
  · unfold fromF' intoF'
    simp only [hw, ↓reduceIte]
    have hbase := fromF_norm_intoF (widthsOf v) _ hrows
    cases hfe : (normF (intoF (widthsOf v) (expFrames v shape h))).fend with
    | some _ => exact hbase
    | none =>
      simp only []
      have hnone : (expFrames v shape h).fend = none := by
        have : (normF (intoF (widthsOf v) (expFrames v shape h))).fend = ((expFrames v shape h).fend.map (intoS (widthsOf v).fend)).map normS := rfl
        rw [this] at hfe
        cases hx : (expFrames v shape h).fend with
        | none => rfl
        | some _ => rw [hx] at hfe; simp at hfe
      have h30 : v.gte 3 0 = false := by
        cases hg : v.gte 3 0 with
        | false => rfl
        | true => simp [expFrames, hg] at hnone
      rw [h30]
      simpa using hbase

/-- what comes back from the archive is the game that went in, as soon as import ∘ normalisation ∘ export is the identity on
    its frame set (or the frame set is empty and equals the one built from the start block) -/
theorem ofP_toP (C : Codec KVs AFrame) (hnorm : C.norm = normF) (g : Game) (hh : g.hashedLen = none)
    (hf : (if g.frames.id = [] then FCols.new g.start.version (portOccupancy g.start)
           else fromF' (g.start.version.gte 3 0) (normF (intoF' (widthsOf g.start.version) g.frames))) = g.frames) :
    ofP { (toP g none) with frames := (toP g none).frames.map C.norm } = g := by
  cases g with
  | mk st fe frs md gko hl dge =>
    simp only at hh hf
    subst hh
    simp only [ofP, toP, hnorm]
    have hgk : (gko.map fun k => (k.bytes, k.actualSize)).map (fun c => (⟨c.1, c.2⟩ : Gecko)) = gko := by
      cases gko <;> rfl
    rw [hgk]
    congr 1
    by_cases hid : frs.id = []
    · simp only [hid, ↓reduceIte, Option.map_none] at hf ⊢; exact hf
    · simp only [hid, ↓reduceIte, Option.map_some] at hf ⊢; exact hf

/-- **C02, bytes to bytes.**  For the canonical `.slp` file `x` of any well-formed replay of a version the writers accept
    (at least one frame needs at least one occupied port for the Arrow export — without one `into_struct_array` panics, the
    recorded finding D6): reading `x`, writing the game as `.slpp`, reading those bytes back and writing the result as `.slp`
    reproduces `x` byte for byte.  `C` is any codec whose frame part round-trips up to the IPC validity normalisation. -/
theorem C02_bytes (C : Codec KVs AFrame) (hnorm : C.norm = normF) (T : TextOracle) (r : Replay) (s : Start) (gk : Option GeckoBlocks)
    (h : r.WFAny T s gk) (hmax : assertMaxVersion s.version = .ok ())
    (hsize : ∀ g, readSlp T {} (r.encodeAny s.version (portOccupancy s) gk) = .ok g →
      SizesOK C (toP g none) g.start.bytes (g.fend.map (·.bytes))) :
    ∃ g p, readSlp T {} (r.encodeAny s.version (portOccupancy s) gk) = .ok g ∧
      slppRead C T false (slppWrite C (toP g none) g.start.bytes (g.fend.map (·.bytes))) = .ok p ∧
      writeSlp (ofP p) = .ok (r.encodeAny s.version (portOccupancy s) gk) := by
  obtain ⟨ge, hge, hread⟩ := C04_any T r s gk h
  obtain ⟨hfr, hst, hfe, hhl⟩ := gameAny_frames r s ge gk
  have hrd : readSlp T {} (r.encodeAny s.version (portOccupancy s) gk) = .ok (r.gameAny s ge gk) := by
    unfold readSlp; rw [hread]
    simp only [Bool.false_eq_true, ↓reduceIte]
    congr 1
    cases hg : r.gameAny s ge gk with
    | mk a b c d e f g' => rw [hg] at hhl; simp only at hhl; subst hhl; rfl
  have hsb : (r.gameAny s ge gk).start.bytes = r.startBlock := by rw [hst]; exact gameStart_bytes T _ _ h.start
  -- the end block the writer stores is the one the game was parsed from
  have hend : ((r.gameAny s ge gk).fend.map (·.bytes)).map gameEnd = (toP (r.gameAny s ge gk) none).fend.map Res.ok := by
    show ((r.gameAny s ge gk).fend.map (·.bytes)).map gameEnd = (r.gameAny s ge gk).fend.map Res.ok
    rw [hfe]
    cases hge' : ge with
    | none => rfl
    | some e =>
      rw [hge'] at hge
      cases hrf : r.fend with
      | none => rw [hrf] at hge; simp at hge
      | some raw =>
        rw [hrf] at hge
        simp only [Option.map_some, Option.some.injEq] at hge ⊢
        rw [gameEnd_bytes raw e hge]; exact hge
  have hstart : gameStart T (r.gameAny s ge gk).start.bytes = .ok (toP (r.gameAny s ge gk) none).start := by
    show gameStart T (r.gameAny s ge gk).start.bytes = .ok (r.gameAny s ge gk).start
    rw [hsb, hst]; exact h.start
  have hgecko : ∀ c, (toP (r.gameAny s ge gk) none).gecko = some c → c.2 < 2 ^ 32 := by
    intro c hc
    cases gk with
    | none => simp [toP, Replay.gameAny, Replay.game] at hc
    | some g =>
      simp only [toP, Replay.gameAny, Replay.gameG, Option.map_some, Option.some.injEq] at hc
      subst hc
      exact (h.gecko g rfl).2.2.2.2
  have hrt := slppRead_written C T (toP (r.gameAny s ge gk) none) _ _ hstart hend hgecko (hsize _ hrd) false
  simp only [Bool.false_eq_true, ↓reduceIte] at hrt
  refine ⟨_, _, hrd, hrt, ?_⟩
  -- the game that comes back is the game that went in
  have hback : ofP { (toP (r.gameAny s ge gk) none) with frames := (toP (r.gameAny s ge gk) none).frames.map C.norm } = r.gameAny s ge gk := by
    apply ofP_toP C hnorm _ hhl
    rw [hfr, hst]
    by_cases hid : (expFrames s.version (portOccupancy s) r.frames).id = []
    · rw [if_pos hid]
      have hnil : r.frames = [] := by simpa [expFrames] using hid
      rw [hnil]; exact FCols_new_eq _ _
    · rw [if_neg hid]
      exact import_export s.version (portOccupancy s) r.frames h.frames
  rw [hback]
  have := write_game_any T r s gk h hmax ge hge
  exact this

#print axioms import_export
#print axioms C02_bytes
end Peppi
