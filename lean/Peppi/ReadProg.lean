import Peppi.Prog
import Peppi.Read
import Peppi.Lemmas.Fuel
/-! **The reader model is a program of exact reads.**  Every stream-facing function of the reader model (`parse_header`,
    `parse_start`, `parse_event`, the metadata reader, the event loop, the tail, the skip-frames jump, `read`) is re-expressed
    in the syntax `Prog`, and shown to denote — over a flat byte string — exactly the `Rd` function the file-level theorems are
    about (`run_*` lemmas, ending in `run_readProg`).  With `Prog.frag` this gives `readS_frag`: over *any* fragmentation of
    the input into short reads the reader returns the same game, and the hasher has seen exactly the bytes consumed. -/
namespace Peppi
open Extracted

section UbjCons
variable (utf8 : Bytes → Bool)

theorem toVal_cons (n d : Nat) (b : UInt8) (rest : Bytes) : toVal utf8 (n + 1) d (b :: rest) =
    if b = 0x53 then
      (match rest with
        | [] => .err "eof"
        | u :: rest' => if u = 0x55 then (match toUtf8 utf8 rest' with
            | .ok (s, r) => .ok (.str s, r)
            | .err e => .err e
            | .panic p => .panic p) else .err "expected 0x55")
    else if b = 0x6c then (if rest.length < 4 then .err "eof" else .ok (.int (toI32 (fromBE (rest.take 4))), rest.drop 4))
    else if b = 0x7b then (match readMapLoop utf8 n (d + 1) rest .nil with
        | .ok (m, r) => .ok (.map m, r)
        | .err e => .err e
        | .panic p => .panic p)
    else .err "unexpected value type" := by
  unfold toVal
  split
  · rename_i heq; cases heq
  · rename_i r heq
    cases heq
    simp only [↓reduceIte]
    split
    · rfl
    · rename_i r'
      simp only [↓reduceIte]
      cases toUtf8 utf8 r' with
      | ok x => obtain ⟨s, r⟩ := x; rfl
      | err e => rfl
      | panic e => rfl
    · rename_i u t hne
      have : u ≠ 0x55 := hne
      simp [this]
  · rename_i r heq; cases heq; simp
  · rename_i r heq; cases heq
    have e1 : ¬ ((0x7b : UInt8) = 0x53) := by decide
    have e2 : ¬ ((0x7b : UInt8) = 0x6c) := by decide
    simp only [e1, e2, ↓reduceIte]
    cases readMapLoop utf8 n (d + 1) rest KVs.nil with
    | ok x => obtain ⟨m, r'⟩ := x; rfl
    | err e => rfl
    | panic e => rfl
  · rename_i hd tl h1 h2 h3 heq
    cases heq
    have n1 : b ≠ 0x53 := h1
    have n2 : b ≠ 0x6c := h2
    have n3 : b ≠ 0x7b := h3
    simp [n1, n2, n3]

theorem readMapLoop_nil (n d : Nat) (acc : KVs) : readMapLoop utf8 (n + 1) d [] acc =
    if d > MAX_DEPTH then .err "too deep" else .err "eof" := by
  unfold readMapLoop; split <;> rfl

theorem readMapLoop_cons (n d : Nat) (b : UInt8) (rest : Bytes) (acc : KVs) : readMapLoop utf8 (n + 1) d (b :: rest) acc =
    if d > MAX_DEPTH then .err "too deep" else
    if b = 0x7d then .ok (acc, rest)
    else if b = 0x55 then (match toUtf8 utf8 rest with
        | .ok (k, r) => (match toVal utf8 n d r with
          | .ok (v, r') => readMapLoop utf8 n d r' (acc.insert k v)
          | .err e => .err e
          | .panic p => .panic p)
        | .err e => .err e
        | .panic p => .panic p)
    else .err "unexpected key type" := by
  conv => lhs; unfold readMapLoop
  by_cases hd : d > MAX_DEPTH
  · simp only [hd, ↓reduceIte]
  · simp only [hd, ↓reduceIte]
    split
    · rename_i heq; cases heq
    · rename_i r heq; cases heq; simp
    · rename_i r heq; cases heq
      have e1 : ¬ ((0x55 : UInt8) = 0x7d) := by decide
      simp only [e1, ↓reduceIte]
      cases toUtf8 utf8 rest with
      | ok x =>
        obtain ⟨k, r⟩ := x
        simp only []
        cases toVal utf8 n d r with
        | ok y => obtain ⟨v, r'⟩ := y; rfl
        | err e => rfl
        | panic e => rfl
      | err e => rfl
      | panic e => rfl
    · rename_i hd tl h1 h2 heq
      cases heq
      have n1 : b ≠ 0x7d := h1
      have n2 : b ≠ 0x55 := h2
      simp [n1, n2]
end UbjCons

namespace Prog

theorem run_ite {α} (c : Prop) [Decidable c] (a b : Prog α) : (if c then a else b).run = if c then a.run else b.run := by
  split <;> rfl

/-- `read_u8` as a raw byte -/
def byte : Prog UInt8 := take 1 (fun b => done (b.headD 0))
def Rd_byte : Rd UInt8 := fun bs => match bs with | [] => .err "eof" | b :: rest => .ok (b, rest)
@[simp] theorem run_byte : byte.run = Rd_byte := by
  funext bs
  cases bs with
  | nil => simp [byte, run, Rd_byte]
  | cons b t => simp [byte, run, Rd_byte]

def expectBytesP (expected : Bytes) : Prog Unit := do
  let actual ← take expected.length done
  if actual = expected then pure () else fail "expected bytes"

@[simp] theorem run_expectBytesP (e : Bytes) : (expectBytesP e).run = expectBytes e := by
  simp only [expectBytesP, expectBytes, run_bind, run_ite, run_take, run_fail, run_pure]

def parsePayloadsP : Prog (Nat × List (Nat × Nat)) := do
  let code ← u8
  if code ≠ EV_PAYLOADS then fail "expected event payloads" else
  let size ← u8
  if size % 3 ≠ 1 then fail "invalid payload size" else
  let buf ← take (size - 1) done
  let sizes ← lift (payloadTriples buf [])
  if (sizeOfEv sizes EV_GAME_START).isNone then fail "missing Game Start in payload sizes" else
  if (sizeOfEv sizes EV_GAME_END).isNone then fail "missing Game End in payload sizes" else
  pure (1 + size, sizes)

@[simp] theorem run_parsePayloadsP : parsePayloadsP.run = parsePayloads := by
  simp only [parsePayloadsP, parsePayloads, run_bind, run_ite, run_u8, run_take, run_lift, run_fail, run_pure]


def parseGameStartP (T : TextOracle) (sizes : List (Nat × Nat)) (bytesRead : Nat) : Prog (Nat × Start) := do
  let code ← u8
  match sizeOfEv sizes code with
  | none => fail "unknown event"
  | some size =>
    let buf ← take size done
    if code = EV_GAME_START then do
      let s ← lift (gameStart T buf)
      pure (bytesRead + size + 1, s)
    else fail "Invalid event before start"

@[simp] theorem run_parseGameStartP (T : TextOracle) (sizes : List (Nat × Nat)) (br : Nat) :
    (parseGameStartP T sizes br).run = parseGameStart T sizes br := by
  simp only [parseGameStartP, parseGameStart, run_bind, run_u8]
  congr 1
  funext code
  cases sizeOfEv sizes code with
  | none => simp only [run_fail]
  | some size => simp only [run_bind, run_ite, run_take, run_lift, run_fail, run_pure]

def parseHeaderP : Prog Nat := do
  expectBytesP FILE_SIGNATURE
  be 4

@[simp] theorem run_parseHeaderP : parseHeaderP.run = parseHeader := by
  simp only [parseHeaderP, parseHeader, run_bind, run_expectBytesP, run_be]

def parseStartP (T : TextOracle) : Prog ParseState := do
  let (br, sizes) ← parsePayloadsP
  let (br, start) ← parseGameStartP T sizes br
  let ports := portOccupancy start
  let portIdx := (List.range 4).map fun p => (ports.findIdx? (·.port == p))
  pure { st := { sizes, splitRaw := [], splitActual := 0, portIdx, start, fend := none,
                 frames := FCols.new start.version ports, metadata := none, gecko := none, doubleGameEnd := none },
         bytesRead := br }

@[simp] theorem run_parseStartP (T : TextOracle) : (parseStartP T).run = parseStart T := by
  simp only [parseStartP, parseStart, run_bind, run_parsePayloadsP, run_parseGameStartP, run_pure]

def parseEventP (ps : ParseState) : Prog (Nat × ParseState) := do
  let st := ps.st
  let code ← u8
  match sizeOfEv st.sizes code with
  | none => fail "unknown event"
  | some size =>
    let buf ← take size done
    let (code', buf', st) ← (if code = EV_SPLITTER then do
        let (w, st') ← lift (handleSplitter buf st)
        match w with
        | some wrapped => pure (wrapped, st'.splitRaw, { st' with splitRaw := [] })
        | none => pure (code, buf, st')
      else pure (code, buf, st) : Prog (Nat × Bytes × PState))
    let st ← lift (handleEvent st code' buf')
    pure (code', { st, bytesRead := ps.bytesRead + size + 1 })

@[simp] theorem run_parseEventP (ps : ParseState) : (parseEventP ps).run = parseEvent ps := by
  simp only [parseEventP, parseEvent, run_bind, run_u8]
  congr 1
  funext code
  cases sizeOfEv ps.st.sizes code with
  | none => simp only [run_fail]
  | some size =>
    simp only [run_bind, run_take, run_lift, run_pure]
    congr 1
    funext buf
    congr 1
    split
    · simp only [run_bind, run_lift]
      congr 1
      funext wst
      obtain ⟨w, st'⟩ := wst
      cases w <;> simp only [run_pure]
    · simp only [run_pure]


section Ubj
variable (utf8 : Bytes → Bool)

def toUtf8P : Prog Bytes := do
  let len ← u8
  let s ← take len done
  if utf8 s then pure s else fail "utf8"

@[simp] theorem run_toUtf8P : (toUtf8P utf8).run = toUtf8 utf8 := by
  have h : (toUtf8P utf8).run = (Rd.u8 >>= fun len => Rd.take len >>= fun s => if utf8 s then pure s else Rd.fail "utf8") := by
    simp only [toUtf8P, run_bind, run_u8, run_take, run_ite, run_pure, run_fail]
  rw [h]
  funext bs
  cases bs with
  | nil => rfl
  | cons b rest =>
    simp only [toUtf8, Bind.bind, Rd.u8, Rd.take]
    by_cases hl : rest.length < b.toNat
    · simp only [hl, ↓reduceIte]
    · by_cases hu : utf8 (rest.take b.toNat) = true
      · simp only [hl, hu, ↓reduceIte]; rfl
      · simp only [hl, hu, ↓reduceIte]; rfl

mutual
  def toValP : Nat → Nat → Prog Tree
    | 0, _ => fail "fuel"
    | fuel+1, depth => do
      let t ← byte
      if t = 0x53 then do
        let u ← byte
        if u = 0x55 then do let s ← toUtf8P utf8; pure (.str s) else fail "expected 0x55"
      else if t = 0x6c then do let n ← take 4 done; pure (.int (toI32 (fromBE n)))
      else if t = 0x7b then do let m ← readMapLoopP fuel (depth + 1) .nil; pure (.map m)
      else fail "unexpected value type"
  def readMapLoopP : Nat → Nat → KVs → Prog KVs
    | 0, _, _ => fail "fuel"
    | fuel+1, depth, acc =>
      if depth > MAX_DEPTH then fail "too deep" else do
      let t ← byte
      if t = 0x7d then pure acc
      else if t = 0x55 then do
        let k ← toUtf8P utf8
        let v ← toValP fuel depth
        readMapLoopP fuel depth (acc.insert k v)
      else fail "unexpected key type"
end

theorem run_ubjP : ∀ fuel : Nat,
    (∀ depth, (toValP utf8 fuel depth).run = fun bs => toVal utf8 fuel depth bs) ∧
    (∀ depth acc, (readMapLoopP utf8 fuel depth acc).run = fun bs => readMapLoop utf8 fuel depth bs acc) := by
  intro fuel
  induction fuel with
  | zero =>
    refine ⟨fun d => ?_, fun d acc => ?_⟩
    · funext bs; simp only [toValP, toVal, run_fail]; rfl
    · funext bs; simp only [readMapLoopP, readMapLoop, run_fail]; rfl
  | succ n ih =>
    obtain ⟨ihv, ihm⟩ := ih
    refine ⟨fun d => ?_, fun d acc => ?_⟩
    · have h : (toValP utf8 (n + 1) d).run = (Rd_byte >>= fun t =>
          if t = 0x53 then Rd_byte >>= fun u => if u = 0x55 then (toUtf8 utf8 : Rd Bytes) >>= fun s => pure (.str s) else Rd.fail "expected 0x55"
          else if t = 0x6c then Rd.take 4 >>= fun x => pure (.int (toI32 (fromBE x)))
          else if t = 0x7b then (fun bs => readMapLoop utf8 n (d + 1) bs .nil : Rd KVs) >>= fun m => pure (.map m)
          else Rd.fail "unexpected value type") := by
        simp only [toValP, run_bind, run_byte, run_ite, run_take, run_pure, run_fail, run_toUtf8P, ihm]
      rw [h]
      funext bs
      match bs with
      | [] => simp only [Bind.bind, Rd_byte, toVal]
      | b :: rest =>
        rw [toVal_cons]
        simp only [Bind.bind, Rd_byte]
        by_cases h53 : b = 0x53
        · subst h53
          simp only [↓reduceIte]
          match rest with
          | [] => rfl
          | u :: rest' =>
            simp only []
            by_cases h55 : u = 0x55
            · subst h55
              simp only [↓reduceIte]
              cases toUtf8 utf8 rest' with
              | ok x => obtain ⟨s, r⟩ := x; rfl
              | err e => rfl
              | panic e => rfl
            · simp only [h55, ↓reduceIte]; rfl
        · by_cases h6c : b = 0x6c
          · subst h6c
            have e1 : ¬ ((0x6c : UInt8) = 0x53) := by decide
            simp only [e1, ↓reduceIte, Rd.take]
            by_cases hl : rest.length < 4
            · simp only [hl, ↓reduceIte]
            · simp only [hl, ↓reduceIte]; rfl
          · by_cases h7b : b = 0x7b
            · subst h7b
              have e1 : ¬ ((0x7b : UInt8) = 0x53) := by decide
              have e2 : ¬ ((0x7b : UInt8) = 0x6c) := by decide
              simp only [e1, e2, ↓reduceIte]
              cases readMapLoop utf8 n (d + 1) rest KVs.nil with
              | ok x => obtain ⟨m, r⟩ := x; rfl
              | err e => rfl
              | panic e => rfl
            · simp only [h53, h6c, h7b, ↓reduceIte]; rfl
    · have h : (readMapLoopP utf8 (n + 1) d acc).run = (if d > MAX_DEPTH then Rd.fail "too deep" else Rd_byte >>= fun t =>
          if t = 0x7d then pure acc
          else if t = 0x55 then (toUtf8 utf8 : Rd Bytes) >>= fun k => (fun bs => toVal utf8 n d bs : Rd Tree) >>= fun v =>
            (fun bs => readMapLoop utf8 n d bs (acc.insert k v) : Rd KVs)
          else Rd.fail "unexpected key type") := by
        simp only [readMapLoopP, run_bind, run_byte, run_ite, run_pure, run_fail, run_toUtf8P, ihm, ihv]
      rw [h]
      funext bs
      match bs with
      | [] =>
        rw [readMapLoop_nil]
        split <;> rfl
      | b :: rest =>
        rw [readMapLoop_cons]
        by_cases hd : d > MAX_DEPTH
        · simp only [hd, ↓reduceIte]; rfl
        · simp only [hd, ↓reduceIte, Bind.bind, Rd_byte]
          by_cases h7d : b = 0x7d
          · subst h7d; simp only [↓reduceIte]; rfl
          · by_cases h55 : b = 0x55
            · subst h55
              have e1 : ¬ ((0x55 : UInt8) = 0x7d) := by decide
              simp only [e1, ↓reduceIte]
              cases toUtf8 utf8 rest with
              | ok x =>
                obtain ⟨k, r⟩ := x
                simp only []
                cases toVal utf8 n d r with
                | ok y => obtain ⟨v, r'⟩ := y; rfl
                | err e => rfl
                | panic e => rfl
              | err e => rfl
              | panic e => rfl
            · simp only [h7d, h55, ↓reduceIte]; rfl

end Ubj

/-- every program only ever moves forward -/
theorem run_shrinks {α} (p : Prog α) : ∀ bs a rest, p.run bs = .ok (a, rest) → rest.length ≤ bs.length := by
  induction p with
  | done a => intro bs a' rest h; simp only [run, Res.ok.injEq, Prod.mk.injEq] at h; rw [h.2]; exact Nat.le_refl _
  | fail e => intro bs a rest h; simp [run] at h
  | panic x => intro bs a rest h; simp [run] at h
  | take n k ih =>
    intro bs a rest h
    simp only [run] at h
    split at h
    · simp at h
    · have := ih _ _ _ _ h; simp only [List.length_drop] at this; omega
  | skip n k ih =>
    intro bs a rest h
    simp only [run] at h
    have := ih _ _ _ h; simp only [List.length_drop] at this; omega

def parseMetadataP (utf8 : Bytes → Bool) (fuel : Nat) (st : PState) : Prog PState := do
  expectBytesP METADATA_KEY
  let m ← readMapLoopP utf8 fuel 1 .nil
  pure { st with metadata := some m }

theorem run_parseMetadataP (utf8 : Bytes → Bool) (fuel : Nat) (st : PState) (bs : Bytes) (hf : 2 * bs.length + 2 ≤ fuel) :
    (parseMetadataP utf8 fuel st).run bs = parseMetadata utf8 st bs := by
  have h : (parseMetadataP utf8 fuel st).run = (expectBytes METADATA_KEY >>= fun _ =>
      (fun bs => readMapLoop utf8 fuel 1 bs .nil : Rd KVs) >>= fun m => pure { st with metadata := some m }) := by
    simp only [parseMetadataP, run_bind, run_expectBytesP, (run_ubjP utf8 fuel).2, run_pure]
  rw [h]
  simp only [parseMetadata, Bind.bind]
  cases he : expectBytes METADATA_KEY bs with
  | err e => rfl
  | panic e => rfl
  | ok x =>
    obtain ⟨u, r⟩ := x
    simp only []
    have hl : r.length ≤ bs.length := by
      have := run_shrinks (expectBytesP METADATA_KEY) bs u r (by rw [run_expectBytesP]; exact he)
      exact this
    have : readMapLoop utf8 fuel 1 r .nil = readMap utf8 r := by
      unfold readMap
      exact (ubj_fuel utf8 fuel).2 _ 1 r .nil (by omega) (by omega)
    rw [this]

def eventLoopP : Nat → Nat → ParseState → Prog ParseState
  | 0, _, _ => fail "fuel"
  | fuel+1, rawLen, ps =>
    if rawLen = 0 ∨ ps.bytesRead < rawLen then do
      let (code, ps') ← parseEventP ps
      if code = EV_GAME_END then pure ps' else eventLoopP fuel rawLen ps'
    else pure ps

theorem run_eventLoopP : ∀ (fuel rawLen : Nat) (ps : ParseState),
    (eventLoopP fuel rawLen ps).run = fun bs => eventLoop fuel rawLen ps bs := by
  intro fuel
  induction fuel with
  | zero => intro rawLen ps; funext bs; simp only [eventLoopP, eventLoop, run_fail]; rfl
  | succ n ih =>
    intro rawLen ps
    have h : (eventLoopP (n + 1) rawLen ps).run = (if rawLen = 0 ∨ ps.bytesRead < rawLen then
        parseEvent ps >>= fun x => if x.1 = EV_GAME_END then pure x.2 else (fun bs => eventLoop n rawLen x.2 bs : Rd ParseState)
        else pure ps) := by
      simp only [eventLoopP, run_ite, run_bind, run_parseEventP, run_pure, ih]
    rw [h]
    funext bs
    simp only [eventLoop]
    by_cases hc : rawLen = 0 ∨ ps.bytesRead < rawLen
    · simp only [hc, ↓reduceIte, Bind.bind]
      cases parseEvent ps bs with
      | err e => rfl
      | panic e => rfl
      | ok x =>
        obtain ⟨⟨code, ps'⟩, rest⟩ := x
        simp only []
        split <;> rfl
    · simp only [hc, ↓reduceIte]; rfl

/-- first half of the tail: close the dangling frame below 3.0, swallow what is left of the raw element -/
def tailExtraP (rawLen : Nat) (ps : ParseState) : Prog PState := do
  let st := if ps.st.start.version.lt 3 0 then { ps.st with frames := ps.st.frames.close } else ps.st
  if ps.bytesRead < rawLen then do
      let len := rawLen - ps.bytesRead
      let buf ← take len done
      if len = 1 + endSize st.start.version ∧ buf.head? = some 0x39 then pure { st with doubleGameEnd := some true } else pure st
    else pure st

/-- second half: metadata element or closing brace -/
def tailMetaP (T : TextOracle) (fuel : Nat) (st : PState) : Prog Game := do
  let b ← u8
  let st ← (if b = 0x55 then do
      let st ← parseMetadataP T.utf8Ok fuel st
      expectBytesP [0x7d]
      pure st
    else if b = 0x7d then pure st
    else fail "expected: 0x55 or 0x7d")
  pure { start := st.start, fend := st.fend, frames := st.frames, metadata := st.metadata, gecko := st.gecko,
         hashedLen := none, doubleGameEnd := st.doubleGameEnd }

def readTailP (T : TextOracle) (fuel rawLen : Nat) (ps : ParseState) : Prog Game := do
  let st ← tailExtraP rawLen ps
  tailMetaP T fuel st

/-- the same two halves of the model's `readTail` -/
def tailExtra (rawLen : Nat) (ps : ParseState) : Rd PState := do
  let st := if ps.st.start.version.lt 3 0 then { ps.st with frames := ps.st.frames.close } else ps.st
  if ps.bytesRead < rawLen then do
      let len := rawLen - ps.bytesRead
      let buf ← Rd.take len
      if len = 1 + endSize st.start.version ∧ buf.head? = some 0x39 then pure { st with doubleGameEnd := some true } else pure st
    else pure st

def tailMeta (T : TextOracle) (st : PState) : Rd Game := do
  let b ← Rd.u8
  let st ← (if b = 0x55 then do
      let st ← parseMetadata T.utf8Ok st
      expectBytes [0x7d]
      pure st
    else if b = 0x7d then pure st
    else Rd.fail "expected: 0x55 or 0x7d")
  pure { start := st.start, fend := st.fend, frames := st.frames, metadata := st.metadata, gecko := st.gecko,
         hashedLen := none, doubleGameEnd := st.doubleGameEnd }

theorem readTail_split (T : TextOracle) (rawLen : Nat) (ps : ParseState) :
    readTail T rawLen ps = (tailExtra rawLen ps >>= tailMeta T) := rfl

@[simp] theorem run_tailExtraP (rawLen : Nat) (ps : ParseState) : (tailExtraP rawLen ps).run = tailExtra rawLen ps := by
  simp only [tailExtraP, tailExtra, run_ite, run_bind, run_take, run_pure]

theorem run_tailMetaP (T : TextOracle) (fuel : Nat) (st : PState) (bs : Bytes) (hf : 2 * bs.length + 2 ≤ fuel) :
    (tailMetaP T fuel st).run bs = tailMeta T st bs := by
  have h : (tailMetaP T fuel st).run = (Rd.u8 >>= fun b =>
      (if b = 0x55 then (parseMetadataP T.utf8Ok fuel st).run >>= fun st => expectBytes [0x7d] >>= fun _ => pure st
        else if b = 0x7d then pure st else Rd.fail "expected: 0x55 or 0x7d") >>= fun st =>
      pure { start := st.start, fend := st.fend, frames := st.frames, metadata := st.metadata, gecko := st.gecko,
             hashedLen := none, doubleGameEnd := st.doubleGameEnd }) := by
    simp only [tailMetaP, run_bind, run_u8, run_ite, run_expectBytesP, run_pure, run_fail]
  rw [h]
  match bs with
  | [] => rfl
  | b :: r =>
    simp only [tailMeta, Bind.bind, Rd.u8]
    by_cases h55 : b.toNat = 0x55
    · simp only [h55, ↓reduceIte]
      rw [run_parseMetadataP T.utf8Ok fuel st r (by simp only [List.length_cons] at hf; omega)]
    · simp only [h55, ↓reduceIte]

theorem run_readTailP (T : TextOracle) (fuel rawLen : Nat) (ps : ParseState) (bs : Bytes) (hf : 2 * bs.length + 2 ≤ fuel) :
    (readTailP T fuel rawLen ps).run bs = readTail T rawLen ps bs := by
  rw [readTail_split]
  have h : (readTailP T fuel rawLen ps).run = (tailExtra rawLen ps >>= fun st => (tailMetaP T fuel st).run) := by
    simp only [readTailP, run_bind, run_tailExtraP]
  rw [h]
  simp only [Bind.bind]
  cases he : tailExtra rawLen ps bs with
  | err e => rfl
  | panic e => rfl
  | ok x =>
    obtain ⟨st, r⟩ := x
    have hl : r.length ≤ bs.length := run_shrinks (tailExtraP rawLen ps) bs st r (by rw [run_tailExtraP]; exact he)
    simp only []
    exact run_tailMetaP T fuel st r (by omega)

def skipToEndP (rawLen : Nat) (ps : ParseState) : Prog ParseState :=
  let endOffset := 1 + (sizeOfEv ps.st.sizes EV_GAME_END).getD 0
  if rawLen = 0 ∨ rawLen < ps.bytesRead ∨ rawLen - ps.bytesRead < endOffset then fail "Cannot skip to game end"
  else
    let n := rawLen - ps.bytesRead - endOffset
    skip n (done { ps with bytesRead := ps.bytesRead + n })

@[simp] theorem run_skipToEndP (rawLen : Nat) (ps : ParseState) : (skipToEndP rawLen ps).run = skipToEnd rawLen ps := by
  funext bs
  simp only [skipToEndP, skipToEnd]
  split
  · rfl
  · rfl

/-- `io::slippi::read` as a program of exact reads (`fuel` bounds the two input-driven loops) -/
def readProg (T : TextOracle) (opts : Opts) (fuel : Nat) : Prog Game := do
  let rawLen ← parseHeaderP
  let ps ← parseStartP T
  let ps ← (if opts.skipFrames then skipToEndP rawLen ps else pure ps)
  let ps ← eventLoopP fuel rawLen ps
  readTailP T fuel rawLen ps


/-- **the reader model is this program** -/
theorem run_readProg (T : TextOracle) (opts : Opts) (fuel : Nat) (x : Bytes) (hf : 2 * x.length + 2 ≤ fuel) :
    (readProg T opts fuel).run x = readP T opts x := by
  have h : (readProg T opts fuel).run = (parseHeader >>= fun rawLen => parseStart T >>= fun ps =>
      (if opts.skipFrames then skipToEnd rawLen ps else pure ps) >>= fun ps =>
      (fun bs => eventLoop fuel rawLen ps bs : Rd ParseState) >>= fun ps => (readTailP T fuel rawLen ps).run) := by
    simp only [readProg, run_bind, run_parseHeaderP, run_parseStartP, run_ite, run_skipToEndP, run_pure, run_eventLoopP]
  rw [h]
  simp only [readP, loopTail, Bind.bind]
  cases h1 : parseHeader x with
  | err e => rfl
  | panic e => rfl
  | ok a1 =>
    obtain ⟨rawLen, r1⟩ := a1
    have l1 : r1.length ≤ x.length := run_shrinks parseHeaderP x rawLen r1 (by rw [run_parseHeaderP]; exact h1)
    simp only []
    cases h2 : parseStart T r1 with
    | err e => rfl
    | panic e => rfl
    | ok a2 =>
      obtain ⟨ps, r2⟩ := a2
      have l2 : r2.length ≤ r1.length := run_shrinks (parseStartP T) r1 ps r2 (by rw [run_parseStartP]; exact h2)
      simp only []
      cases h3 : (if opts.skipFrames then skipToEnd rawLen ps else pure ps : Rd ParseState) r2 with
      | err e => rfl
      | panic e => rfl
      | ok a3 =>
        obtain ⟨ps3, r3⟩ := a3
        have l3 : r3.length ≤ r2.length :=
          run_shrinks (if opts.skipFrames then skipToEndP rawLen ps else pure ps) r2 ps3 r3 (by
            rw [run_ite, run_skipToEndP, run_pure]; exact h3)
        simp only []
        rw [eventLoop_fuel fuel (r3.length + 1) rawLen ps3 r3 (by omega) (by omega)]
        cases h4 : eventLoop (r3.length + 1) rawLen ps3 r3 with
        | err e => rfl
        | panic e => rfl
        | ok a4 =>
          obtain ⟨ps4, r4⟩ := a4
          have l4 : r4.length ≤ r3.length := by
            have := run_shrinks (eventLoopP (r3.length + 1) rawLen ps3) r3 ps4 r4 (by rw [run_eventLoopP]; exact h4)
            exact this
          simp only []
          exact run_readTailP T fuel rawLen ps4 r4 (by omega)

#print axioms run_readProg
end Prog
end Peppi
