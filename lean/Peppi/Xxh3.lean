/-! XXH3-64 with the default secret and seed 0 (`xxhash_rust::xxh3::Xxh3::new()` / `xxh3_64`), as an executable definition:
    the hash `Opts::compute_hash` asks for is a concrete function of the consumed bytes in the model, and the driver prints its
    value, which the correspondence check compares with the string the library returns (C11).  The four length classes
    (0–16, 17–128, 129–240, > 240 bytes) follow the reference algorithm (Collet, xxHash `doc/xxhash_spec.md`). -/
namespace Peppi.Xxh3

def secret : ByteArray := ⟨#[
  0xb8, 0xfe, 0x6c, 0x39, 0x23, 0xa4, 0x4b, 0xbe, 0x7c, 0x01, 0x81, 0x2c, 0xf7, 0x21, 0xad, 0x1c,
  0xde, 0xd4, 0x6d, 0xe9, 0x83, 0x90, 0x97, 0xdb, 0x72, 0x40, 0xa4, 0xa4, 0xb7, 0xb3, 0x67, 0x1f,
  0xcb, 0x79, 0xe6, 0x4e, 0xcc, 0xc0, 0xe5, 0x78, 0x82, 0x5a, 0xd0, 0x7d, 0xcc, 0xff, 0x72, 0x21,
  0xb8, 0x08, 0x46, 0x74, 0xf7, 0x43, 0x24, 0x8e, 0xe0, 0x35, 0x90, 0xe6, 0x81, 0x3a, 0x26, 0x4c,
  0x3c, 0x28, 0x52, 0xbb, 0x91, 0xc3, 0x00, 0xcb, 0x88, 0xd0, 0x65, 0x8b, 0x1b, 0x53, 0x2e, 0xa3,
  0x71, 0x64, 0x48, 0x97, 0xa2, 0x0d, 0xf9, 0x4e, 0x38, 0x19, 0xef, 0x46, 0xa9, 0xde, 0xac, 0xd8,
  0xa8, 0xfa, 0x76, 0x3f, 0xe3, 0x9c, 0x34, 0x3f, 0xf9, 0xdc, 0xbb, 0xc7, 0xc7, 0x0b, 0x4f, 0x1d,
  0x8a, 0x51, 0xe0, 0x4b, 0xcd, 0xb4, 0x59, 0x31, 0xc8, 0x9f, 0x7e, 0xc9, 0xd9, 0x78, 0x73, 0x64,
  0xea, 0xc5, 0xac, 0x83, 0x34, 0xd3, 0xeb, 0xc3, 0xc5, 0x81, 0xa0, 0xff, 0xfa, 0x13, 0x63, 0xeb,
  0x17, 0x0d, 0xdd, 0x51, 0xb7, 0xf0, 0xda, 0x49, 0xd3, 0x16, 0x55, 0x26, 0x29, 0xd4, 0x68, 0x9e,
  0x2b, 0x16, 0xbe, 0x58, 0x7d, 0x47, 0xa1, 0xfc, 0x8f, 0xf8, 0xb8, 0xd1, 0x7a, 0xd0, 0x31, 0xce,
  0x45, 0xcb, 0x3a, 0x8f, 0x95, 0x16, 0x04, 0x28, 0xaf, 0xd7, 0xfb, 0xca, 0xbb, 0x4b, 0x40, 0x7e]⟩

def P32_1 : UInt64 := 0x9E3779B1
def P32_2 : UInt64 := 0x85EBCA77
def P32_3 : UInt64 := 0xC2B2AE3D
def P64_1 : UInt64 := 0x9E3779B185EBCA87
def P64_2 : UInt64 := 0xC2B2AE3D27D4EB4F
def P64_3 : UInt64 := 0x165667B19E3779F9
def P64_4 : UInt64 := 0x85EBCA77C2B2AE63
def P64_5 : UInt64 := 0x27D4EB2F165667C5

/-- byte `i` of `a` (0 beyond the end; every call below stays inside) as a 64-bit value -/
def b64 (a : ByteArray) (i : Nat) : UInt64 := (a.get! i).toUInt64

/-- little-endian 32-bit read, widened -/
def rd32 (a : ByteArray) (o : Nat) : UInt64 :=
  b64 a o ||| (b64 a (o+1) <<< 8) ||| (b64 a (o+2) <<< 16) ||| (b64 a (o+3) <<< 24)

/-- little-endian 64-bit read -/
def rd64 (a : ByteArray) (o : Nat) : UInt64 := rd32 a o ||| (rd32 a (o+4) <<< 32)

def rotl (v : UInt64) (n : UInt64) : UInt64 := (v <<< n) ||| (v >>> (64 - n))

def swap32 (v : UInt64) : UInt64 :=
  ((v &&& (0xFF : UInt64)) <<< 24) ||| ((v &&& (0xFF00 : UInt64)) <<< 8) ||| ((v >>> 8) &&& (0xFF00 : UInt64)) ||| ((v >>> 24) &&& (0xFF : UInt64))

def swap64 (v : UInt64) : UInt64 := (swap32 (v &&& (0xFFFFFFFF : UInt64)) <<< 32) ||| swap32 (v >>> 32)

/-- 64 × 64 → 128-bit product, folded: low half xor high half -/
def mulFold (a b : UInt64) : UInt64 :=
  let p := a.toNat * b.toNat
  UInt64.ofNat (p % 18446744073709551616) ^^^ UInt64.ofNat (p / 18446744073709551616)

def xorshift (v : UInt64) (s : UInt64) : UInt64 := v ^^^ (v >>> s)

/-- XXH3's final mix -/
def avalanche (v : UInt64) : UInt64 := xorshift (xorshift v 37 * 0x165667919E3779F9) 32

/-- XXH64's final mix (used for 0–3 bytes) -/
def avalanche64 (v : UInt64) : UInt64 :=
  let v := (v ^^^ (v >>> 33)) * P64_2
  let v := (v ^^^ (v >>> 29)) * P64_3
  v ^^^ (v >>> 32)

def strongAvalanche (v len : UInt64) : UInt64 :=
  let v := v ^^^ rotl v 49 ^^^ rotl v 24
  let v := v * 0x9FB21C651E98DF25
  let v := v ^^^ ((v >>> 35) + len)
  let v := v * 0x9FB21C651E98DF25
  xorshift v 28

def len1to3 (a : ByteArray) : UInt64 :=
  let n := a.size
  let combo := (b64 a 0 <<< 16) ||| (b64 a (n / 2) <<< 24) ||| b64 a (n - 1) ||| (n.toUInt64 <<< 8)
  avalanche64 (combo ^^^ (rd32 secret 0 ^^^ rd32 secret 4))

def len4to8 (a : ByteArray) : UInt64 :=
  let n := a.size
  let flip := rd64 secret 8 ^^^ rd64 secret 16
  let input64 := rd32 a (n - 4) + (rd32 a 0 <<< 32)
  strongAvalanche (input64 ^^^ flip) n.toUInt64

def len9to16 (a : ByteArray) : UInt64 :=
  let n := a.size
  let lo := rd64 a 0 ^^^ (rd64 secret 24 ^^^ rd64 secret 32)
  let hi := rd64 a (n - 8) ^^^ (rd64 secret 40 ^^^ rd64 secret 48)
  avalanche (n.toUInt64 + swap64 lo + hi + mulFold lo hi)

/-- 16 input bytes against 16 secret bytes -/
def mix16 (a : ByteArray) (o so : Nat) : UInt64 :=
  mulFold (rd64 a o ^^^ rd64 secret so) (rd64 a (o + 8) ^^^ rd64 secret (so + 8))

def len17to128 (a : ByteArray) : UInt64 :=
  let n := a.size
  let acc := n.toUInt64 * P64_1
  let acc := if n > 96 then acc + mix16 a 48 96 + mix16 a (n - 64) 112 else acc
  let acc := if n > 64 then acc + mix16 a 32 64 + mix16 a (n - 48) 80 else acc
  let acc := if n > 32 then acc + mix16 a 16 32 + mix16 a (n - 32) 48 else acc
  avalanche (acc + mix16 a 0 0 + mix16 a (n - 16) 16)

def len129to240 (a : ByteArray) : UInt64 :=
  let n := a.size
  let acc := (List.range 8).foldl (fun acc i => acc + mix16 a (16 * i) (16 * i)) (n.toUInt64 * P64_1)
  let acc := avalanche acc
  let acc := (List.range (n / 16 - 8)).foldl (fun acc j => acc + mix16 a (16 * (j + 8)) (16 * j + 3)) acc
  avalanche (acc + mix16 a (n - 16) 119)

def initAcc : Array UInt64 := #[P32_3, P64_1, P64_2, P64_3, P64_4, P32_2, P64_5, P32_1]

/-- one 64-byte stripe at `o` against the secret at `so` -/
def accumulate (acc : Array UInt64) (a : ByteArray) (o so : Nat) : Array UInt64 :=
  (List.range 8).foldl (fun acc i =>
    let v := rd64 a (o + 8 * i)
    let k := v ^^^ rd64 secret (so + 8 * i)
    let acc := acc.modify (i ^^^ 1) (· + v)
    acc.modify i (· + (k &&& (0xFFFFFFFF : UInt64)) * (k >>> 32))) acc

def scramble (acc : Array UInt64) : Array UInt64 :=
  (List.range 8).foldl (fun acc i => acc.modify i fun v => (xorshift v 47 ^^^ rd64 secret (128 + 8 * i)) * P32_1) acc

def stripes (acc : Array UInt64) (a : ByteArray) (o n : Nat) : Array UInt64 :=
  (List.range n).foldl (fun acc s => accumulate acc a (o + 64 * s) (8 * s)) acc

def lenLong (a : ByteArray) : UInt64 :=
  let n := a.size
  let nbBlocks := (n - 1) / 1024
  let acc := (List.range nbBlocks).foldl (fun acc b => scramble (stripes acc a (1024 * b) 16)) initAcc
  let acc := stripes acc a (1024 * nbBlocks) (((n - 1) - 1024 * nbBlocks) / 64)
  let acc := accumulate acc a (n - 64) 121
  let r := (List.range 4).foldl (fun r i =>
    r + mulFold (acc[2 * i]! ^^^ rd64 secret (11 + 16 * i)) (acc[2 * i + 1]! ^^^ rd64 secret (11 + 16 * i + 8))) (n.toUInt64 * P64_1)
  avalanche r

def hashA (a : ByteArray) : UInt64 :=
  let n := a.size
  if n = 0 then avalanche64 (rd64 secret 56 ^^^ rd64 secret 64)
  else if n ≤ 3 then len1to3 a
  else if n ≤ 8 then len4to8 a
  else if n ≤ 16 then len9to16 a
  else if n ≤ 128 then len17to128 a
  else if n ≤ 240 then len129to240 a
  else lenLong a

end Peppi.Xxh3

namespace Peppi
/-- XXH3-64 (default secret, seed 0) of a byte string, as a number below 2⁶⁴ -/
def xxh3_64 (b : List UInt8) : Nat := (Xxh3.hashA ⟨b.toArray⟩).toNat

theorem xxh3_64_lt (b : List UInt8) : xxh3_64 b < 2 ^ 64 := (Xxh3.hashA ⟨b.toArray⟩).toNat_lt
end Peppi
