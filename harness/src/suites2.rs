//! Suites over irregular, malformed, truncated and fragmented inputs, the incremental API and the .slpp reader.
use crate::{dump, gen::*, suites::*, Case, Ctx};
use peppi::game::immutable::Game;
use peppi::io::slippi;
use std::io::{Cursor, Read, Seek, SeekFrom};
use arrow2::array::MutableArray;

pub fn run(suite: &str, rng: &mut Rng, ctx: &mut Ctx) {
    match suite {
        "mal" => mal(rng, ctx), "prefix" => prefix(rng, ctx), "irr" => irr(rng, ctx), "inc" => inc(rng, ctx), "frag" => frag(rng, ctx),
        "newer" => newer(rng, ctx), "maxver" => maxver(rng, ctx), "norm" => norm(rng, ctx), "pread" => pread(rng, ctx), "pprefix" => pprefix(rng, ctx),
        "consts" => consts(ctx), "vgrid" => vgrid(rng, ctx), "tarfmt" => tarfmt(rng, ctx), "fixtures" => fixtures(ctx), "pmodel" => pmodel(rng, ctx),
        _ => { eprintln!("unknown suite {suite}"); std::process::exit(2); }
    }
}

// ------------------------------------------------------------------ malformed input (C06)

/// structure-aware corruptions of a replay, returning the file bytes
fn corrupt_structured(r: &Replay, rng: &mut Rng, kind: u64) -> (Vec<u8>, String) {
    let pad = Pad::default(); let mut r = r.clone(); let mut sizes = table(&r, &pad); let mut body = body_events(&r, &pad); let mut junk: Vec<u8> = vec![];
    // the frame id that is open at position i of the body
    let id_at = |body: &Vec<Vec<u8>>, i: usize, r: &Replay| -> i32 { body[..i].iter().rev().find(|e| matches!(e[0], 0x37..=0x3C) && e[0] != 0x39 && e.len() > 4).map(|e| i32::from_be_bytes(e[1..5].try_into().unwrap())).unwrap_or_else(|| r.frames.first().map_or(-123, |f| f.id)) };
    let pick = |rng: &mut Rng, n: usize| (rng.next() as usize) % n.max(1);
    let name = match kind {
        0 if !body.is_empty() => { let i = pick(rng, body.len()); body.remove(i); "delete-event" }
        1 if !body.is_empty() => { let i = pick(rng, body.len()); let e = body[i].clone(); body.insert(i, e); "duplicate-event" }
        2 if body.len() > 1 => { let i = pick(rng, body.len()); let j = pick(rng, body.len()); body.swap(i, j); "reorder-events" }
        3 if !body.is_empty() => { let i = pick(rng, body.len()); if body[i].len() > 4 { let d = [1i32, -1, 1000, i32::MIN, i32::MAX][(rng.next() % 5) as usize]; let id = i32::from_be_bytes(body[i][1..5].try_into().unwrap()).wrapping_add(d); body[i][1..5].copy_from_slice(&id.to_be_bytes()); } "wrong-frame-id" }
        4 if !body.is_empty() => { let i = pick(rng, body.len()); if (body[i][0] == 0x37 || body[i][0] == 0x38) && body[i].len() > 6 { body[i][5] = [4u8, 5, 7, 255, (body[i][5] + 1) % 4][(rng.next() % 5) as usize]; } "wrong-port" }
        5 if !body.is_empty() => { let i = pick(rng, body.len()); if (body[i][0] == 0x37 || body[i][0] == 0x38) && body[i].len() > 7 { body[i][6] ^= 1; } "wrong-follower-flag" }
        6 => { // an event the version does not have, declared in the table
            let (code, size) = [(0x3Au8, 8u16), (0x3B, 37), (0x3C, 4), (0x3D, 20), (0x10, 516), (0x10, 100)][(rng.next() % 6) as usize];
            if !sizes.iter().any(|s| s.0 == code) { sizes.push((code, size)); }
            let sz = sizes.iter().find(|s| s.0 == code).unwrap().1 as usize;
            let i = pick(rng, body.len() + 1);
            let mut e = vec![code]; e.extend(rng.bytes(sz)); if rng.next() % 4 != 0 && sz >= 4 { let id = id_at(&body, i, &r); e[1..5].copy_from_slice(&id.to_be_bytes()); }
            body.insert(i, e); "illegal-event-for-version" }
        7 => { let i = pick(rng, sizes.len()); match rng.next() % 4 { 0 => sizes[i].1 = sizes[i].1.wrapping_add(1), 1 => sizes[i].1 = sizes[i].1.saturating_sub(1), 2 => sizes[i].1 = 0, _ => { sizes.remove(i); } } "payload-table-edit" }
        8 => { let e = (0x35u8, 4u16); sizes.push(e); let mut ev = vec![0x35]; ev.extend(rng.bytes(4)); body.insert(0, ev); "duplicate-payloads-event" }
        9 => { let mut ev = vec![0x36]; ev.extend(&r.start_block); let i = pick(rng, body.len() + 1); body.insert(i, ev); "duplicate-start" }
        10 => { // splitter fields
            if !sizes.iter().any(|s| s.0 == 0x10) { sizes.push((0x3D, 1)); sizes.push((0x10, 516)); }
            let mut ev = vec![0x10]; ev.extend(rng.bytes(512)); let actual: u16 = [0u16, 1, 512, 513, 65535][(rng.next() % 5) as usize]; ev.extend(actual.to_be_bytes()); ev.push([0x3Du8, 0x36, 0x37, 0x39, 0x10, 0x99][(rng.next() % 6) as usize]); ev.push((rng.next() % 2) as u8);
            let i = pick(rng, body.len() + 1); body.insert(i, ev); "splitter-fields" }
        11 => { junk = rng.nbytes(20); if rng.next() % 2 == 0 && !junk.is_empty() { junk[0] = 0x39; } "junk-after-end" }
        12 => { // deep metadata nesting
            let d = [100usize, 126, 127, 128, 200, 3000, 20000][(rng.next() % 7) as usize]; let mut m = vec![]; for _ in 0..d { m.extend(b"U\x01a{"); } if rng.next() % 2 == 0 { for _ in 0..d { m.push(b'}'); } } r.metadata = Some(m); "deep-metadata" }
        13 => { r.end = Some(rng.nbytes(8)); "odd-game-end" }
        14 => { let n = r.start_block.len(); r.start_block.truncate((rng.next() as usize) % n.max(1)); sizes[0].1 = r.start_block.len() as u16; "short-start-block" }
        16 => { // a known event code declared with a boundary size (below / at / above every fixed offset its handler uses); its events resized to match
            let code = [0x10u8, 0x3D, 0x37, 0x38, 0x3A, 0x3B, 0x3C, 0x10, 0x10][(rng.next() % 9) as usize];
            let size: u16 = if code == 0x10 { [1u16, 2, 3, 4, 5, 100, 511, 512, 513, 514, 515, 517, 520, 1028, 65535][(rng.next() % 15) as usize] } else { [1u16, 2, 3, 4, 5, 6, 7, 8][(rng.next() % 8) as usize] };
            if let Some(e) = sizes.iter_mut().find(|s| s.0 == code) { e.1 = size; } else { sizes.push((code, size)); }
            let mut any = false;
            for e in body.iter_mut() { if e[0] == code { any = true; e.resize(1 + size as usize, 0x5a); } }
            if !any { let i = pick(rng, body.len() + 1); let mut e = vec![code]; e.extend(rng.bytes(size as usize)); if size >= 4 && rng.next() % 2 == 0 { let id = id_at(&body, i, &r); e[1..5].copy_from_slice(&id.to_be_bytes()); } body.insert(i, e); }
            "boundary-size-for-known-code" }
        17 => { // one more complete split message (1-3 blocks) somewhere after the first: a second Gecko list, a frame event of the game re-sent
            // inside blocks, an event the library does not know — the accumulators (buffer, running size) are shared by all messages
            if !sizes.iter().any(|s| s.0 == 0x10) { sizes.push((0x10, 516)); }
            if !sizes.iter().any(|s| s.0 == 0x3D) { sizes.push((0x3D, 300)); }
            let nb = 1 + (rng.next() % 3) as usize; let code = [0x3Du8, 0x37, 0x38, 0x3B, 0x50, 0x3D][(rng.next() % 6) as usize];
            let i = pick(rng, body.len() + 1); let mut blocks = vec![];
            for bi in 0..nb { let mut ev = vec![0x10u8]; let mut data = rng.bytes(512); if bi == 0 && matches!(code, 0x37 | 0x38 | 0x3B) { let id = id_at(&body, i, &r); data[..4].copy_from_slice(&id.to_be_bytes()); data[4] = 0; data[5] = 0; }
                ev.extend(data); let actual: u16 = if bi + 1 == nb { [300u16, 512, 257, 1][(rng.next() % 4) as usize] } else { 512 }; ev.extend(actual.to_be_bytes()); ev.push(code); ev.push((bi + 1 == nb) as u8); blocks.push(ev); }
            body.splice(i..i, blocks); "second-split-message" }
        18 => "rawlen-vs-stream",
        19 => { // an event code listed twice in the payload-size table: same size, or another one (the later entry is the one in force)
            let i = pick(rng, sizes.len()); let mut e = sizes[i]; if rng.next() % 2 == 0 { e.1 = e.1.wrapping_add([1u16, 3, 0xffff][(rng.next() % 3) as usize]); }
            let at = pick(rng, sizes.len() + 1).max(1); sizes.insert(at, e); "duplicate-table-entry" }
        20 => { // split messages whose wrapped command has no entry in the payload-size table (only the splitter itself is declared): the Gecko list of the
            // game with its entry removed, or one more message wrapping 0x3D / a frame event / an unknown code
            if let Some(i) = sizes.iter().position(|x| x.0 == 0x3D) { if rng.next() % 2 == 0 { sizes.remove(i); } }
            if !sizes.iter().any(|x| x.0 == 0x10) { sizes.push((0x10, 516)); }
            if r.gecko.is_none() || rng.next() % 2 == 0 { let code = [0x3Du8, 0x3D, 0x50, 0x3B][(rng.next() % 4) as usize]; let nb = 1 + (rng.next() % 2) as usize; let i = pick(rng, body.len() + 1); let mut blocks = vec![];
                for bi in 0..nb { let mut ev = vec![0x10u8]; ev.extend(rng.bytes(512)); let actual: u16 = if bi + 1 == nb { [512u16, 300, 1][(rng.next() % 3) as usize] } else { 512 }; ev.extend(actual.to_be_bytes()); ev.push(code); ev.push((bi + 1 == nb) as u8); blocks.push(ev); }
                body.splice(i..i, blocks); }
            "wrapped-code-not-in-table" }
        _ => { if let Some(f) = r.frames.first_mut() { f.id = [i32::MAX, i32::MIN, -124, 0][(rng.next() % 4) as usize]; } body = body_events(&r, &pad); "extreme-first-id" }
    };
    let mut out = assemble(&r, &sizes, &body, &junk, &pad);
    // the declared raw length promises more than the stream holds: d more bytes (one more Game End of the version's size among them), the stream ending
    // right behind the real raw element, a byte or two later, or going on with what was there
    if kind == 18 && out.len() >= 15 { let actual = u32::from_be_bytes([out[11], out[12], out[13], out[14]]) as usize; let endlen = r.end.as_ref().map_or(2, |e| e.len());
        let d = if rng.next() % 2 == 0 { 1 + endlen } else { [1usize, 2, 3, 7, 4, 8, 100, 65536][(rng.next() % 8) as usize] }; out[11..15].copy_from_slice(&((actual + d) as u32).to_be_bytes());
        let cut = match rng.next() % 4 { 0 | 1 => 15 + actual, 2 => 15 + actual + 1 + (rng.next() % 2) as usize, _ => out.len() }; out.truncate(cut.min(out.len()));
        return (out, format!("{}:+{}", name, d)); }
    // the length byte of the payload-size table itself
    if rng.next() % 12 == 0 && out.len() > 17 { let cur = out[16]; out[16] = [0u8, 1, 2, 3, 4, 255, cur.wrapping_add(1), cur.wrapping_sub(1), cur.wrapping_add(3)][(rng.next() % 9) as usize]; return (out, format!("{}+tablelen", name)); }
    // header / raw_len edits
    if rng.next() % 6 == 0 { let l: u32 = [0u32, 1, 14, u32::MAX, (out.len() as u32).wrapping_sub(20), 1 << 31][(rng.next() % 6) as usize]; out[11..15].copy_from_slice(&l.to_be_bytes()); return (out, format!("{}+rawlen", name)); }
    (out, name.to_string())
}

fn corrupt_bytes(b: &[u8], rng: &mut Rng) -> (Vec<u8>, String) {
    let mut o = b.to_vec();
    match rng.next() % 5 {
        0 => { for _ in 0..1 + rng.next() % 3 { let i = (rng.next() as usize) % o.len(); o[i] ^= 1 << (rng.next() % 8); } (o, "bitflip".into()) }
        1 => { let i = (rng.next() as usize) % o.len(); o.truncate(i); (o, "truncate".into()) }
        2 => { let i = (rng.next() as usize) % o.len(); let n = ((rng.next() % 9) as usize).min(o.len() - i); o.drain(i..i + n); (o, "delete-bytes".into()) }
        3 => { let i = (rng.next() as usize) % o.len(); for b in rng.nbytes(9) { o.insert(i, b); } (o, "insert-bytes".into()) }
        _ => { let i = (rng.next() as usize) % o.len(); let n = ((rng.next() % 16) as usize).min(o.len() - i); for j in 0..n { o[i + j] = (rng.next() >> 11) as u8; } (o, "overwrite".into()) }
    }
}

/// drive the incremental API over the whole input; returns a description or err / panic
fn incremental(b: &[u8]) -> Result<String, String> {
    let mut cur = Cursor::new(b);
    let raw_len = slippi::de::parse_header(&mut cur, None).map_err(|e| format!("err {}", e))? as usize;
    let mut st = slippi::de::parse_start(&mut cur, None).map_err(|e| format!("err {}", e))?;
    let mut n = 0usize;
    while raw_len == 0 || st.bytes_read() < raw_len {
        let before = st.bytes_read();
        let code = match slippi::de::parse_event(&mut cur, &mut st, None) { Ok(c) => c, Err(e) => {
            // a driver that skips what the parser rejected and carries on: two more calls on the same state and stream (any result but a panic)
            let _ = slippi::de::parse_event(&mut cur, &mut st, None); let _ = slippi::de::parse_event(&mut cur, &mut st, None);
            return Err(format!("err {}", e)); } };
        if st.bytes_read() <= before { return Err("no-progress".into()); }
        n += 1; if code == 0x39 { break; }
    }
    Ok(format!("ok events={} frames={}", n, st.frames().id.len()))
}

fn mal(rng: &mut Rng, ctx: &mut Ctx) {
    let go = GenOpts { max_frames: 5, newer: false, force: None };
    for k in 0..ctx.n {
        // structured corruptions walk the 18 kinds; events illegal for the version get every framing regime in turn
        let kind = if k % 4 == 1 { 6 } else if k % 8 == 3 { 16 } else if k % 16 == 7 { 17 } else if k % 16 == 15 || k % 16 == 11 { 18 } else if k % 32 == 10 { 19 } else if k % 16 == 14 { 20 } else { rng.next() % 21 };
        let go = if kind == 6 { GenOpts { max_frames: 4, newer: false, force: Some([(1u8,0u8,0u8),(2,1,0),(2,2,0),(2,255,3),(3,0,0),(3,6,0),(0,1,0),(2,5,0)][(k / 4) % 8]) } } else { GenOpts { max_frames: 5, newer: false, force: None } };
        let (r, tags) = gen_replay(rng, k, &go);
        let (b, kind) = if k % 3 == 0 && kind != 6 { let b = encode(&r); corrupt_bytes(&b, rng) } else { corrupt_structured(&r, rng, kind) };
        let skip = k % 4 == 1; let hash = k % 5 == 2;
        ctx.starting(&read_cmd(skip, hash, &b));
        let (line, _) = read_line(&b, skip, hash);
        let mut c = Case::new(read_cmd(skip, hash, &b), line.clone());
        if line == "panic" || line.starts_with("panic ") { c.fail("C06", format!("one-shot reader panicked ({}; skip={}, hash={})", kind, skip, hash)); }
        if k % 7 == 3 { let dir = std::env::temp_dir().join(format!("pv-debug-mal-{}-{}", std::process::id(), k)); let _ = std::fs::remove_dir_all(&dir);
            let o = slippi::de::Opts { skip_frames: skip, compute_hash: hash, debug: Some(slippi::de::Debug { dir: dir.clone() }) };
            let res = std::panic::catch_unwind(|| slippi::read(Cursor::new(&b), Some(&o)).map(|g| dump::summary(&g)).map_err(|e| e.to_string()));
            match res { Err(_) => c.fail("C06", format!("one-shot reader panicked with the debug option ({})", kind)), Ok(r) => { if r.is_ok() != line.starts_with("ok") { c.fail("C06", "the debug option changes whether a corrupted replay is accepted"); } } }
            let _ = std::fs::remove_dir_all(&dir); }
        let inc = std::panic::catch_unwind(|| incremental(&b));
        match inc { Err(_) => c.fail("C06", format!("incremental reader panicked ({})", kind)), Ok(Err(e)) if e == "no-progress" => c.fail("C06", "parse_event returned without consuming input"), _ => {} }
        c.tags = vec![format!("kind:{}", kind), format!("outcome:{}", line.split(' ').next().unwrap_or("")), tags[7].clone(), format!("skip{}", skip as u8)];
        ctx.push(c);
    }
}

// ------------------------------------------------------------------ truncation (C07)

fn prefix(rng: &mut Rng, ctx: &mut Ctx) {
    let go = GenOpts { max_frames: 3, newer: false, force: None };
    for k0 in 0..ctx.n { let k = k0 + ctx.seed as usize;
        // one file per framing regime in turn, finished (Game End present), varied container shape
        let (mut r, tags) = loop { let kk = k * 7 + (rng.next() % 50) as usize; let (r, t) = gen_replay(rng, kk, &go); let reg = ["regimeA", "regimeB", "regimeC", "regimeA"][k % 4]; let want_gecko = k % 4 == 3; /* the fourth file carries a Gecko list (Message Splitter blocks) */ if t[7] == reg && r.end.is_some() && (!want_gecko || (r.gecko.is_some() && r.frames.len() <= 2)) { break (r, t); } };
        if k % 4 == 3 { r.metadata = None; }
        if k % 4 == 0 { r.double_end = true; let n = crate::gen::gend_size(r.v); if let Some(e) = r.end.as_mut() { e.resize(n, 255); } } /* by construction: one file of every run has the duplicated Game End (of the version's own size: that is how the reader knows it) */
        if k % 4 == 1 { r.metadata = Some(b"U\x01aSU\x01bU\x00{U\x01cl\x00\x00\x00\x07U\x00{U\x00{U\x01dSU\x00}}}".to_vec()); } /* the empty string is a key like any other: the file ends `}}}}}` */
        let b = encode(&r);
        for skip in [false, true] {
            let mut bad: Vec<usize> = vec![]; let mut bad_at: Vec<usize> = vec![];
            for n in 0..b.len() {
                ctx.starting(&read_cmd(skip, false, &b[..n]));
                let o = read_opts(skip, n % 2 == 0);
                let res = std::panic::catch_unwind(|| slippi::read(Cursor::new(&b[..n]), Some(&o)));
                match res { Ok(Err(_)) => {} _ => bad.push(n) }
                // the same truncated copy where a reader may meet it: not at position 0 but behind other bytes — here a complete copy of the same replay
                // (files stored back to back, the last one cut short): still an error, never something pieced together from what precedes it
                if n % 3 == k % 3 { let mut both = b.clone(); both.extend_from_slice(&b[..n]);
                    let res2 = std::panic::catch_unwind(|| { let mut c = Cursor::new(&both[..]); c.set_position(b.len() as u64); slippi::read(&mut c, Some(&o)) });
                    match res2 { Ok(Err(_)) => {} _ => bad_at.push(n) } }
            }
            let full_ok = read_line(&b, skip, false).1.is_some();
            let mut c = Case::new(format!("prefixes {} {}", skip as u8, hex(&b)), if bad.is_empty() { format!("allerr {} full={}", b.len(), full_ok) } else { format!("bad {:?} full={}", &bad[..bad.len().min(5)], full_ok) });
            if !bad.is_empty() { c.fail("C07", format!("prefix of length {} of a {}-byte well-formed finished replay (skip_frames={}) was not rejected with an error", bad[0], b.len(), skip)); }
            if !bad_at.is_empty() { c.fail("C07", format!("prefix of length {} of a {}-byte well-formed finished replay (skip_frames={}), read from a position behind a complete copy of the replay, was not rejected with an error", bad_at[0], b.len(), skip)); }
            if !full_ok { c.fail("C07", "the untruncated file itself is rejected"); }
            c.tags = tags.clone(); c.tags.push(format!("skip{}", skip as u8)); c.tags.push(format!("prefixes{}", b.len()));
            ctx.push(c);
        }
    }
}

/// run `f` on a worker thread; None if it does not finish within `secs`
fn with_watchdog<T: Send + 'static>(secs: u64, f: impl FnOnce() -> T + Send + 'static) -> Option<T> {
    let (tx, rx) = std::sync::mpsc::channel();
    std::thread::Builder::new().stack_size(8 << 20).spawn(move || { let _ = tx.send(f()); }).unwrap();
    rx.recv_timeout(std::time::Duration::from_secs(secs)).ok()
}

fn to_slpp(b: &[u8], comp: Option<arrow2::io::ipc::write::Compression>, hash: bool) -> Result<Vec<u8>, String> {
    let g = slippi::read(Cursor::new(b), Some(&read_opts(false, hash))).map_err(|e| format!("err {}", e))?;
    let mut buf = vec![]; peppi::io::peppi::write(&mut buf, g, Some(&peppi::io::peppi::ser::Opts { compression: comp })).map_err(|e| format!("err {}", e))?; Ok(buf)
}
pub fn game_sig(g: &Game) -> String { format!("{} | {} | {} | {:?} | {:?} | {:?} | start.raw {:016x}/{} end.raw {:?}", dump::summary(g), start_json(&g.start), end_json(&g.end), g.metadata, g.hash, g.quirks.map(|q| q.double_game_end),
    xxhash_rust::xxh3::xxh3_64(&g.start.bytes.0), g.start.bytes.0.len(), g.end.as_ref().map(|e| crate::suites::hex(&e.bytes.0))) }

fn pprefix(rng: &mut Rng, ctx: &mut Ctx) {
    let comps = [None, Some(arrow2::io::ipc::write::Compression::LZ4), Some(arrow2::io::ipc::write::Compression::ZSTD)];
    let go = GenOpts { max_frames: 3, newer: false, force: None };
    for k0 in 0..ctx.n { let k = k0 + ctx.seed as usize;
        let (r, tags) = loop { let kk = k * 5 + (rng.next() % 60) as usize; let (r, t) = gen_replay(rng, kk, &go); if !slots_of(&r.start_block).is_empty() && (k % 3 != 1 || (!r.frames.is_empty() && r.frames.last().unwrap().chars.iter().any(|c| c.2.is_some()))) && (k % 3 != 2 || (r.gecko.is_some() && r.end.is_some())) { break (r, t); } }; // the three archives of a quick run: any game / a longer game with frames / a game with Gecko list and Game End (every kind of member present)
        let mut r = r; if k % 4 == 3 { r.frames.clear(); }
        // one archive in three carries a longer game (a few dozen frames, so that every column buffer is more than a few bytes)
        if k % 3 == 1 && !r.frames.is_empty() { let want = 20 + (k % 7) * 4; let last = r.frames.last().unwrap().clone(); let mut id = last.id;
            while r.frames.len() < want { let mut f = last.clone(); id += 1; f.id = id; for c in f.chars.iter_mut() { if let Some(ev) = c.2.as_mut() { let n1 = ev.pre.len(); let n2 = ev.post.len(); if n1 > 4 { ev.pre[(rng.next() as usize) % n1] = (rng.next() >> 8) as u8; } if n2 > 4 { ev.post[(rng.next() as usize) % n2] = (rng.next() >> 8) as u8; } } } r.frames.push(f); } }
        let b = encode(&r); let comp = comps[k % 3];
        let a = match std::panic::catch_unwind(|| to_slpp(&b, comp, true)) { Ok(Ok(a)) => a, _ => { let mut c = Case::new(format!("pprefix {}", hex(&b)), "unwritable".into()); c.fail("C02", "well-formed replay could not be written as .slpp"); ctx.push(c); continue; } };
        let skipf = k % 2 == 1; // every other archive is walked with the skip-frames option
        let full = match peppi::io::peppi::read(Cursor::new(&a), Some(&peppi::io::peppi::de::Opts { skip_frames: skipf })) { Ok(g) => game_sig(&g), Err(e) => { let mut c = Case::new(format!("pprefix {}", hex(&b)), "unreadable".into()); c.fail("C02", format!("written .slpp unreadable: {}", e)); ctx.push(c); continue; } };
        let mut bad = vec![]; let mut complete_from = a.len(); let mut hung = None;
        let seed = ctx.seed as usize; let thorough = ctx.thorough;
        let big = a.len() > 30_000; // a big archive is thinned: every third sampled offset in the quick tier, every fourth offset plus the block edges in the thorough tier (any 8 consecutive offsets keep two or three)
        let cuts: Vec<usize> = (0..a.len()).filter(|n| (thorough && (!big || n % 4 == 0 || n % 512 < 16 || n % 512 >= 504)) || ((n % 512 < 16 || n % 512 >= 504 || matches!(n % 8, 0 | 1 | 7) || (n + seed) % 13 == 0) && (!big || n % 3 == 0 || n % 512 < 2))).collect();
        // worker threads walk the cuts (one for a small archive, four contiguous quarters for a big one); the parent watches the clock so that a
        // reader that blocks is observed, not waited for; the results are then judged in order of the cut position
        let (tx, rx) = std::sync::mpsc::channel();
        let workers = if big { 4 } else { 1 }; let per = (cuts.len() + workers - 1) / workers.max(1);
        for w in 0..workers { let a = a.clone(); let mine: Vec<usize> = cuts.iter().cloned().skip(w * per).take(per).collect(); let tx = tx.clone();
            std::thread::Builder::new().stack_size(8 << 20).spawn(move || { for n in mine {
            // every other cut is read through a source that returns short reads (a pipe, a socket, a decompressor)
            let chunked = n % 2 == 1;
            let res = if chunked { std::panic::catch_unwind(|| peppi::io::peppi::read(Chunked::new(a[..n].to_vec(), vec![13, 1, 100], None), Some(&peppi::io::peppi::de::Opts { skip_frames: skipf })).map(|g| game_sig(&g)).map_err(|_| ())) }
                else { std::panic::catch_unwind(|| peppi::io::peppi::read(Cursor::new(&a[..n]), Some(&peppi::io::peppi::de::Opts { skip_frames: skipf })).map(|g| game_sig(&g)).map_err(|_| ())) };
            if tx.send((n, res)).is_err() { break; } } }).unwrap(); }
        drop(tx);
        let mut got: std::collections::BTreeMap<usize, std::thread::Result<Result<String, ()>>> = std::collections::BTreeMap::new();
        let hb = hex(&b);
        while got.len() < cuts.len() {
            if got.len() % 256 == 0 { ctx.starting(&format!("pprefix-cuts ({} of {} done) of archive (comp {}) for {}", got.len(), cuts.len(), k % 3, hb)); }
            match rx.recv_timeout(std::time::Duration::from_secs(20)) { Err(_) => { hung = cuts.iter().cloned().find(|n| !got.contains_key(n)); break; } Ok((n, r)) => { got.insert(n, r); } } }
        for (n, r) in got { match r { Err(_) => bad.push((n, "panic")), Ok(Err(_)) => { if complete_from != a.len() { bad.push((n, "error after a shorter prefix was complete")); } }
            Ok(Ok(sig)) => { if sig != full { bad.push((n, "partial game")); } else if complete_from == a.len() { complete_from = n; } } } }
        let mut c = Case::new(format!("pprefix {} {}", k % 3, hex(&b)), format!("len={} skip={} complete_from={} bad={:?} hung={:?}", a.len(), skipf, complete_from, &bad[..bad.len().min(4)], hung));
        if let Some(n) = hung { c.fail("C07", format!(".slpp truncated to {} of {} bytes: reader did not return within 20 s", n, a.len())); }
        for (n, what) in bad.iter().take(3) { c.fail("C07", format!(".slpp truncated to {} of {} bytes: {}", n, a.len(), what)); }
        c.tags = tags; c.tags.push(format!("comp{}", k % 3)); c.tags.push(format!("cuts{}", cuts.len())); c.tags.push(format!("pskip{}", skipf as u8));
        ctx.push(c);
        if hung.is_some() { return; } // the worker thread is stuck; stop here
    }
}

// ------------------------------------------------------------------ tolerated irregularities (C08, C17)

const KNOWN: [u8; 10] = [0x35, 0x36, 0x37, 0x38, 0x39, 0x3A, 0x3B, 0x3C, 0x3D, 0x10];

/// permute a frame's body events keeping each character's pre before its post (and Frame Start first, Frame End last)
fn permute_body(evs: &mut Vec<Vec<u8>>, rng: &mut Rng) {
    let first = evs.first().map_or(false, |e| e[0] == 0x3A) as usize; let last = evs.len() - evs.last().map_or(false, |e| e[0] == 0x3C) as usize;
    if last <= first + 1 { return; }
    let body: Vec<Vec<u8>> = evs[first..last].to_vec();
    // random linear extension: repeatedly pick any event whose predecessor constraints are met
    let mut remaining: Vec<Vec<u8>> = body; let mut out = vec![];
    while !remaining.is_empty() {
        let ok: Vec<usize> = (0..remaining.len()).filter(|&i| { let e = &remaining[i];
            // items keep their relative order; a post needs its character's pre to be out already
            if e[0] == 0x3B { !remaining[..i].iter().any(|x| x[0] == 0x3B) }
            else if e[0] == 0x38 { !remaining.iter().any(|x| x[0] == 0x37 && x[5] == e[5] && x[6] == e[6]) }
            else { true } }).collect();
        let i = ok[(rng.next() as usize) % ok.len()]; out.push(remaining.remove(i));
    }
    evs.splice(first..last, out);
}

fn irr(rng: &mut Rng, ctx: &mut Ctx) {
    let go = GenOpts { max_frames: if ctx.thorough { 12 } else { 5 }, newer: false, force: None };
    for k in 0..ctx.n {
        let (mut r, mut tags) = gen_replay(rng, k, &go);
        let pad = Pad::default();
        // blocks at the edge of what a 16-bit table entry can say: a Gecko list of 65 535 bytes (128 blocks), a Game Start or a Game End block of
        // 65 535 / 65 534 bytes (longer than any layout: the extra bytes are kept and written back)
        if k % 16 == 6 && k < 640 { let big = if (k / 48) % 2 == 0 { 65535usize } else { 65534 };
            match (k / 16) % 3 { 0 if r.v >= (3, 3, 0) => { r.gecko = Some((rng.bytes(65536), big as u32)); } /* (a Gecko list belongs to 3.3+: the writer declares its events only there) */
                1 => { r.start_block.resize(big, 0); }
                _ => { if r.end.is_some() && !r.double_end { r.end.as_mut().unwrap().resize(big, 0xff); } else { r.start_block.resize(big, 0); } } }
            tags.push(format!("edge-block:{}:{}", (k / 16) % 3, big)); }
        let base = encode(&r);
        let (bl, bg) = read_line(&base, false, false);
        let what = (k + k / 6) % 6; // (drifts against the container shapes, which repeat every 12 cases)  0 unknown, 1 junk, 2 permute, 3 unknown+permute, 4 all, 5 a frame event carried by Message Splitter blocks
        let mut per_frame: Vec<Vec<Vec<u8>>> = r.frames.iter().map(|f| frame_events(&r, f, &pad)).collect();
        if what == 2 || what == 3 || what == 4 { for f in per_frame.iter_mut() { permute_body(f, rng); } }
        let mut body: Vec<Vec<u8>> = gecko_events(&r).into_iter().chain(per_frame.into_iter().flatten()).collect();
        if what == 0 || what == 3 || what == 4 {
            let ncodes = 1 + (rng.next() % 3) as usize; let mut codes: Vec<(u8, u16)> = vec![];
            while codes.len() < ncodes { let c = [0x11u8, 0x34, 0x3E, 0x3F, 0x0F, 0x00, 0xFF, 0x7B, 0x55, 0x7D][(rng.next() % 10) as usize]; if !KNOWN.contains(&c) && !codes.iter().any(|x| x.0 == c) { let size: u16 = match rng.next() % 14 { 0 => 1, 1 => 255, 2 => 256, 3 => 512, 4 => 516, 5 => 65534, 6 => 65535, _ => 1 + (rng.next() % 600) as u16 }; codes.push((c, size)); } }
            r.extra_payloads = codes.clone();
            // entries for codes that are declared but never occur (a newer recorder's event this game did not produce), small and huge
            if k % 2 == 0 { for (c, sz) in [(0x40u8, [1u16, 255, 4096, 65535][(k / 2) % 4]), (0x41, 65535)].iter().take(1 + (k / 8) % 2) { if !KNOWN.contains(c) && !r.extra_payloads.iter().any(|x| x.0 == *c) { r.extra_payloads.push((*c, *sz)); } } }
            for _ in 0..1 + rng.next() % 4 { let (c, s) = codes[(rng.next() as usize) % codes.len()]; let mut e = vec![c]; e.extend(rng.bytes(s as usize));
                // every other unknown payload of 4+ bytes starts like a frame event: with a frame number of this game, the one after the last, or the one before the first
                if s >= 4 && rng.next() % 2 == 0 { let ids: Vec<i32> = r.frames.iter().map(|f| f.id).collect(); let lo = ids.first().copied().unwrap_or(-123); let hi = ids.last().copied().unwrap_or(-124);
                    let pick = match rng.next() % 4 { 0 => hi.wrapping_add(1), 1 => lo.wrapping_sub(1), _ => if ids.is_empty() { -123 } else { ids[(rng.next() as usize) % ids.len()].wrapping_add((rng.next() % 2) as i32) } };
                    e[1..5].copy_from_slice(&pick.to_be_bytes()); tags.push("unk-frameid".into()); }
                let i = (rng.next() as usize) % (body.len() + 1);
                // by construction, not by chance: in every other such game with a Gecko list of two or more blocks, one unknown event sits between two blocks
                let ng = gecko_events(&r).len(); let i = if ng >= 2 && (k / 6) % 2 == 0 && !tags.iter().any(|t| t == "unk-between-gecko-blocks") { tags.push("unk-between-gecko-blocks".into()); 1 + (rng.next() as usize) % (ng - 1) } else { i };
                body.insert(i, e); }
        }
        // the splitter is a generic container: any event may arrive as 512-byte blocks carrying its command byte; the reader reassembles and
        // dispatches it like the plain event (the recorder only splits the Gecko list, the format does not say so)
        let mut sizes = table(&r, &pad);
        if what == 5 && k % 12 >= 6 {
            // ... or a message of a kind the library does not know (what a newer recorder would do with any large new event): 1-3 blocks, skipped as a whole
            if !sizes.iter().any(|x| x.0 == 0x10) { sizes.push((0x10, 516)); }
            let code = [0x50u8, 0x11, 0x3E, 0x7B][(k / 12) % 4]; let nb = 1 + (k / 48) % 3; let mut blocks = vec![];
            for bi in 0..nb { let mut b = vec![0x10u8]; b.extend(rng.bytes(512)); let actual: u16 = if bi + 1 == nb { 1 + (rng.next() % 512) as u16 } else { 512 }; b.extend(actual.to_be_bytes()); b.push(code); b.push((bi + 1 == nb) as u8); blocks.push(b); }
            let at = (rng.next() as usize) % (body.len() + 1);
            // not between the blocks of the Gecko list: the accumulator is shared
            let at = if r.gecko.is_some() { at.max(gecko_events(&r).len()) } else { at };
            body.splice(at..at, blocks); tags.push(format!("wrapped-unknown:{}", nb));
        } else if what == 5 { let cand: Vec<usize> = (0..body.len()).filter(|&i| matches!(body[i][0], 0x3A | 0x37 | 0x3B | 0x38 | 0x3C)).collect();
            if !cand.is_empty() { let i = cand[(rng.next() as usize) % cand.len()]; let e = body[i].clone(); let (code, pay) = (e[0], &e[1..]);
                if !sizes.iter().any(|x| x.0 == 0x10) { sizes.push((0x10, 516)); }
                let chunks: Vec<&[u8]> = pay.chunks(512).collect(); let mut blocks = vec![];
                for (ci, ch) in chunks.iter().enumerate() { let mut b = vec![0x10u8]; b.extend_from_slice(ch); b.extend(std::iter::repeat(0u8).take(512 - ch.len())); b.extend((ch.len() as u16).to_be_bytes()); b.push(code); b.push((ci + 1 == chunks.len()) as u8); blocks.push(b); }
                body.splice(i..i + 1, blocks); tags.push(format!("wrapped:{:02x}", code)); } }
        // the table lists event codes that exist, but not at this version, and that never occur (a recorder that writes one table for all versions):
        // the version decides how frames are opened and closed, not what the table happens to list
        if k % 6 == 4 { for (code, sz, since) in [(0x3Au8, 8u16, (2u8, 2u8)), (0x3C, 8, (3, 0)), (0x3B, 42, (3, 0))] { if !gte(r.v, since.0, since.1) && !sizes.iter().any(|x| x.0 == code) && !r.extra_payloads.iter().any(|x| x.0 == code) { r.extra_payloads.push((code, sz)); sizes.push((code, sz)); tags.push(format!("declared-unused:{:02x}", code)); } } }
        // a payload-size table that declares many event codes this game never uses (a recorder built with every optional event compiled in): up to
        // the 84 entries the table's one-byte length allows
        if k % 16 == 9 { let want = [30usize, 80, 29, 60, 28, 75][(k / 16) % 6]; /* (room left for the entries other irregularities of the same case add) */ let mut code = 0x40u8;
            while sizes.len() + 1 < want && r.extra_payloads.len() < 90 { if !KNOWN.contains(&code) && !r.extra_payloads.iter().any(|x| x.0 == code) && !sizes.iter().any(|x| x.0 == code) { let e = (code, 1 + (rng.next() % 700) as u16); r.extra_payloads.push(e); sizes.push(e); } code = code.wrapping_add(1); if code == 0x3f { break; } }
            tags.push(format!("table-entries:{}", sizes.len().min(84))); }
        // the follower flag of a Pre / Post event is "non-zero": a recorder that writes another non-zero value than 1 means the follower all the same
        if k % 5 == 2 { let val = [2u8, 255, 0x80, 3][(k / 5) % 4]; let mut any = false; for (i, e) in body.iter_mut().enumerate() { if (e[0] == 0x37 || e[0] == 0x38) && e.len() > 6 && e[6] == 1 && (k / 20) % 2 == 0 || (e[0] == 0x37 || e[0] == 0x38) && e.len() > 6 && e[6] == 1 && i % 2 == 0 { e[6] = val; any = true; } }
            if any { tags.push(format!("follower-flag:{}", val)); } }
        // aligned spans: one more unknown event sized so that the bytes between Game Start and Game End are an exact multiple of a typical buffer
        // size (what a reader that skips or copies that span in chunks sees as "no remainder")
        let mut aligned = 0usize;
        if k % 8 == 3 { let a = if k < 640 { [4096usize, 8192, 65536, 16384, 32768, 65536, 131072, 8192][(k / 8) % 8] } else { [4096usize, 8192, 16384, 8192][(k / 8) % 4] }; /* (files of 64 KiB and more only near the start of a shard) */ let span: usize = body.iter().map(|e| e.len()).sum();
            let mut t = (a - span % a) % a; if t == 1 { t += a; }
            let code = [0x42u8, 0x43, 0x44][(k / 8) % 3];
            if t >= 2 && t - 1 <= 65535 && !r.extra_payloads.iter().any(|x| x.0 == code) { let sz = (t - 1) as u16; r.extra_payloads.push((code, sz)); if what == 5 { sizes.push((code, sz)); }
                let mut e = vec![code]; e.extend(rng.bytes(sz as usize)); let at = if (k / 8) % 2 == 0 { body.len() } else { gecko_events(&r).len().min(body.len()) }; body.insert(at, e); aligned = a; tags.push(format!("aligned-span:{}", a)); } }
        let mut junk = vec![];
        if (what == 1 || what == 4) && r.end.is_some() && !r.double_end { junk = { let n = [1usize, 2, 3, 5, 6, 7, 8, 12, 1, 40][(rng.next() % 10) as usize]; rng.bytes(n) }; if junk.len() == 1 + r.end.as_ref().unwrap().len() && junk[0] == 0x39 { junk[0] = 0x38; } }
        if what != 5 { sizes = table(&r, &pad); } // (extra_payloads were added to `r` above)
        let x = assemble(&r, &sizes, &body, &junk, &pad);
        tags.push(format!("irr{}", what));
        // C08: same game as without the irregularities
        let hashed = k % 2 == 1;
        let (l0, g) = read_line(&x, false, hashed);
        let mut c = Case::new(read_cmd(false, hashed, &x), l0.clone()); c.tags = tags.clone();
        let l = dump::strip_hash(&l0);
        if hashed { if let Some(g) = &g { let xx = format!("xxh3:{:016x}", xxhash_rust::xxh3::xxh3_64(&x)); if g.hash.as_deref() != Some(xx.as_str()) { c.fail("C11", format!("hash {:?} != XXH3-64 of the file {} (replay with unknown events / large payloads)", g.hash, xx)); } } }
        if l != bl { c.fail("C08", format!("game differs from the one parsed without the tolerated irregularities: {} vs {}", &l[..l.len().min(200)], &bl[..bl.len().min(200)])); if what == 2 { c.fail("C17", "permuted frame body changes the parsed game"); } }
        if let (Some(g), Some(bg)) = (&g, &bg) { if start_json(&g.start) != start_json(&bg.start) || end_json(&g.end) != end_json(&bg.end) || g.metadata != bg.metadata { c.fail("C08", "start/end/metadata differ from the regular parse"); }
            if g.metadata != bg.metadata { c.fail("C16", "the metadata element read from a file with tolerated irregularities (unknown events, bytes after Game End) differs from the one read without them"); } }
        // bytes after Game End sit right in front of the metadata element: a reader that loses its place there loses the metadata
        if g.is_none() && bg.is_some() && !junk.is_empty() { c.fail("C16", format!("the metadata element behind {} bytes after Game End is not reached: {}", junk.len(), &l0[..l0.len().min(100)])); }
        if l0 == "panic" { c.fail("C06", "the reader panics on a replay with tolerated irregularities (unknown events, split messages, bytes after Game End)"); }
        // the history-based frame oracle (spec offsets, presence, rows per frame) holds of the irregular file as of the regular one
        if let Some(g) = &g { check_frames(&r, g, &mut c); }
        ctx.push(c);
        // the same irregular file through a source that returns short reads: unknown payloads are skipped by the same exact reads
        if k % 2 == 0 { let (plan, pname) = plans(rng, x.len(), k / 2); let fl = read_line_chunked(&x, false, hashed, plan);
            let mut c = Case::new(read_cmd(false, hashed, &x), fl.clone()); c.tags = vec![format!("irr-frag:{}", pname)];
            if fl != l0 { let m = format!("replay with unknown events / junk read through short reads ({}) differs from the read from memory: {} vs {}", pname, &fl[..fl.len().min(160)], &l0[..l0.len().min(160)]); c.fail("C08", m.clone()); c.fail("C12", m.clone()); if junk.is_empty() { c.fail("C17", format!("a file as the writer produces it (Game End doubled: {}) does not read back the same through short reads: {}", r.double_end, &m[..m.len().min(160)])); } if hashed { c.fail("C11", m); } }
            ctx.push(c); }
        if r.end.is_some() && k % 3 == 0 {
            let (sl, sg) = read_line(&x, true, k % 2 == 0); let (bsl, _) = read_line(&base, true, false);
            let mut c = Case::new(read_cmd(true, (k % 2 == 0), &x), sl.clone()); c.tags = vec!["irr-skip".into()];
            if junk.is_empty() { if dump::strip_hash(&sl) != bsl { c.fail("C08", "skip-frames read differs from the one without the tolerated irregularities"); }
                if let (Some(sg), Some(g)) = (&sg, &g) { if start_json(&sg.start) != start_json(&g.start) || end_json(&sg.end) != end_json(&g.end) || sg.metadata != g.metadata { c.fail("C10", "skip-frames start/end/metadata differ from the full parse (replay with unknown events / permuted bodies)"); } } }
            ctx.push(c);
        }
        // the same irregular file read with the debug option (every event dumped into a directory): same game
        if k % 10 == 7 { let dir = std::env::temp_dir().join(format!("pv-debug-irr-{}-{}", std::process::id(), k)); let _ = std::fs::remove_dir_all(&dir);
            let o = slippi::de::Opts { skip_frames: false, compute_hash: hashed, debug: Some(slippi::de::Debug { dir: dir.clone() }) };
            let res = std::panic::catch_unwind(|| slippi::read(Cursor::new(&x), Some(&o)));
            let dl = match res { Err(_) => "panic".to_string(), Ok(Err(e)) => format!("err {}", e), Ok(Ok(g)) => dump::summary(&g) };
            let mut c = Case::new(read_cmd(false, hashed, &x), dl.clone()); c.tags = vec!["irr-debug-opt".into()];
            if dl != l0 { let m = format!("replay with unknown events / junk read with the debug option differs from the read without it: {} vs {}", &dl[..dl.len().min(100)], &l0[..l0.len().min(100)]); c.fail("C08", m.clone()); if dl == "panic" { c.fail("C06", m); } }
            ctx.push(c); let _ = std::fs::remove_dir_all(&dir); }
        if aligned > 0 && r.end.is_some() { let (bsl, _) = read_line(&base, true, false);
            for hsh in [true, false] { let (sl, _) = read_line(&x, true, hsh);
                let mut c = Case::new(read_cmd(true, hsh, &x), sl.clone()); c.tags = vec![format!("aligned-skip hash{}", hsh as u8)];
                if junk.is_empty() && dump::strip_hash(&sl) != bsl { let m = format!("skip-frames read (hash={}) of a replay whose frame span is a multiple of {} bytes differs from the one of the regular replay: {} vs {}", hsh, aligned, &sl[..sl.len().min(120)], &bsl[..bsl.len().min(120)]); c.fail("C10", m.clone()); if hsh { c.fail("C11", m); } }
                ctx.push(c); } }
        // the same replay with raw length 0 in the header (a recorder that never went back to fill it in): events are read up to Game End, then the
        // metadata element — same game
        if k % 7 == 5 { /* by construction: a single Game End and a metadata element are put there if the draw did not, no bytes after Game End */
            let mut r2 = r.clone(); r2.double_end = false; if r2.end.is_none() { let n = crate::gen::gend_size(r.v); r2.end = Some([2u8, 255, 255, 255, 255, 255][..n.min(6)].to_vec()); }
            if r2.metadata.is_none() { r2.metadata = Some(b"U\x01aSU\x01b".to_vec()); }
            let x2 = assemble(&r2, &sizes, &body, &[], &pad); let (l, g) = read_line(&x2, false, false);
            let mut x0 = x2.clone(); x0[11..15].copy_from_slice(&[0, 0, 0, 0]);
            let hz = (k / 7) % 2 == 0;
            let (lz, gz) = read_line(&x0, false, hz);
            let mut c = Case::new(read_cmd(false, hz, &x0), lz.clone()); c.tags = vec![format!("rawlen0 hash{}", hz as u8)];
            if hz { if let Some(gz) = &gz { let xx = format!("xxh3:{:016x}", xxhash_rust::xxh3::xxh3_64(&x0)); if gz.hash.as_deref() != Some(xx.as_str()) { c.fail("C11", format!("hash {:?} of a replay with raw length 0 in its header is not XXH3-64 of the file {}", gz.hash, xx)); } } }
            let lz = dump::strip_hash(&lz);
            if lz != l { c.fail("C08", format!("replay with raw length 0 in the header reads differently: {} vs {}", &lz[..lz.len().min(120)], &l[..l.len().min(120)])); }
            match (&gz, &g) { (Some(gz), Some(g)) => { if gz.metadata != g.metadata { c.fail("C16", "metadata of a replay with raw length 0 in the header differs (or is dropped)".to_string()); } if end_json(&gz.end) != end_json(&g.end) { c.fail("C05", "Game End of a replay with raw length 0 differs".to_string()); } }
                (None, Some(_)) => { c.fail("C16", format!("replay with raw length 0 in the header rejected: {}", &lz[..lz.len().min(100)])); } _ => {} }
            ctx.push(c); }
        // C17: write, declared length, re-read, fixed point
        let mut c = Case::new(format!("rt {}", hex(&x)), String::new()); c.tags = vec!["rt-irr".into()];
        match &g { None => { c.impl_out = l.clone(); c.fail("C17", "replay with tolerated irregularities rejected"); } Some(g) => match write_slp(g) {
            Err(e) => { c.impl_out = e.clone(); c.fail("C17", format!("accepted game cannot be written: {}", e)); }
            Ok(y) => { c.impl_out = format!("ok {}", hex(&y)); check_c17(g, &y, &mut c); } } }
        ctx.push(c);
    }
}

/// declared raw length = actual, re-read equal, writing the re-read game is a fixed point
pub fn check_c17(g: &Game, y: &[u8], c: &mut Case) {
    let decl = u32::from_be_bytes(y[11..15].try_into().unwrap()) as usize;
    let after = 15 + decl;
    let meta_key: &[u8] = b"U\x08metadata{";
    let ok_boundary = after < y.len() && (y[after..] == [0x7d] || y[after..].starts_with(meta_key));
    if !ok_boundary { c.fail("C17", format!("declared raw length {} does not end at the end of the raw element (file length {})", decl, y.len())); }
    let (l2, g2) = read_line(y, false, false);
    match g2 { None => c.fail("C17", format!("written file cannot be read again: {}", l2)), Some(g2) => {
        if dump::strip_hash(&dump::summary(&g2)) != dump::strip_hash(&dump::summary(g)) || start_json(&g2.start) != start_json(&g.start) || g2.start.bytes != g.start.bytes || end_json(&g2.end) != end_json(&g.end) || g2.metadata != g.metadata || g2.gecko_codes != g.gecko_codes { c.fail("C17", "second read differs in start/end/metadata/gecko/frames"); }
        match write_slp(&g2) { Ok(z) => if z != y { c.fail("C17", "writing the re-read game does not reproduce the written file"); }, Err(e) => c.fail("C17", format!("re-read game cannot be written: {}", e)) } } }
}

// ------------------------------------------------------------------ newer versions, longer payloads (C08) and writer refusal (C09)

fn newer(rng: &mut Rng, ctx: &mut Ctx) {
    let go = GenOpts { max_frames: 4, newer: true, force: None };
    for k in 0..ctx.n {
        let (mut r, mut tags) = gen_replay(rng, k, &go);
        r.double_end = false; // the duplicated-Game-End heuristic compares against the known size; not a known field
        // extra trailing bytes are *extra* only behind the last known field: a Game End shorter than 6 bytes is completed to the newest layout first
        if let Some(e) = r.end.as_mut() { let fill = [255u8, 255, 0, 1, 255, 2]; while e.len() < 6 { e.push(fill[e.len()]); } }
        let pad = Pad { gstart: (rng.next() % 40) as usize, pre: (rng.next() % 9) as usize, post: (rng.next() % 9) as usize, gend: (rng.next() % 5) as usize, fstart: (rng.next() % 6) as usize, item: (rng.next() % 7) as usize, fend: (rng.next() % 5) as usize };
        let base = encode(&r); let x = encode_padded(&r, &pad);
        let (bl, bg) = read_line(&base, false, false); let (l, g) = read_line(&x, false, false);
        let mut c = Case::new(read_cmd(false, false, &x), l.clone()); tags.push("padded".into()); c.tags = tags;
        if k % 2 == 1 { let (plan, pname) = plans(rng, x.len(), k / 2); let fl = read_line_chunked(&x, false, false, plan);
            let mut c2 = Case::new(read_cmd(false, false, &x), fl.clone()); c2.tags = vec![format!("padded-frag:{}", pname)];
            if fl != l { let m = format!("newer-version replay read through short reads ({}) differs from the read from memory", pname); c2.fail("C08", m.clone()); c2.fail("C12", m); }
            ctx.push(c2); }
        match (&g, &bg) { (Some(g), Some(bg)) => {
            if l != bl { c.fail("C08", "frame data differs when known events carry extra trailing bytes"); }
            if start_json(&g.start) != start_json(&bg.start) { c.fail("C08", "Game Start fields differ when the block carries extra trailing bytes"); }
            if end_json(&g.end) != end_json(&bg.end) { c.fail("C08", "Game End fields differ when the block carries extra trailing bytes"); }
            if g.metadata != bg.metadata { c.fail("C08", "metadata differs"); }
            // a version above the newest known one has every known field, at its known offset (C03 / C04 on both files)
            check_frames(&r, bg, &mut c); check_frames(&r, g, &mut c); }
            (None, _) => c.fail("C08", format!("newer-version replay with longer payloads rejected: {}", l)), _ => c.fail("C08", "baseline newer-version replay rejected") }
        ctx.push(c);
        if r.end.is_some() {
            let hash = k % 2 == 0; let (sl, sg) = read_line(&x, true, hash);
            let mut c = Case::new(read_cmd(true, hash, &x), sl.clone()); c.tags = vec!["padded-skip".into()];
            match (&sg, &g) { (Some(sg), Some(g)) => { if start_json(&sg.start) != start_json(&g.start) || end_json(&sg.end) != end_json(&g.end) || sg.metadata != g.metadata { c.fail("C10", "skip-frames start/end/metadata differ from the full parse (newer version, longer payloads)"); }
                    if sg.frames.id.len() != 0 { c.fail("C10", "skip-frames returned frames"); }
                    if hash { let xx = format!("xxh3:{:016x}", xxhash_rust::xxh3::xxh3_64(&x)); if sg.hash.as_deref() != Some(xx.as_str()) { c.fail("C11", "skip-frames hash differs from XXH3-64 of the file (newer version, longer payloads)"); } } }
                (None, Some(_)) => { c.fail("C10", format!("skip-frames read fails where the full read succeeds (newer version, longer payloads): {}", sl)); c.fail("C08", "skip-frames read of a newer-version replay with longer payloads fails"); }
                _ => {} }
            ctx.push(c);
        }
    }
}

fn maxver(rng: &mut Rng, ctx: &mut Ctx) {
    let mut vs: Vec<V> = vec![(3,15,255),(3,16,0),(3,16,1),(3,16,255),(3,17,0),(4,0,0),(255,255,255),(2,255,255),(3,0,0),(0,1,0),(3,255,0),(4,0,1),(16,3,0),(3,15,0),(200,0,0)];
    for _ in 0..ctx.n { vs.push(match rng.next() % 3 { 0 => (3, (rng.next() % 40) as u8, (rng.next() >> 8) as u8), 1 => ((rng.next() % 6) as u8, (rng.next() >> 8) as u8, (rng.next() >> 8) as u8), _ => ((rng.next() >> 8) as u8, (rng.next() >> 8) as u8, (rng.next() >> 8) as u8) }); }
    if ctx.thorough { for a in 0..=255u8 { for b in (0..=255u8).step_by(5) { vs.push((a, b, [0u8, 1, 255][(a as usize + b as usize) % 3])); } } for b in 0..=255u8 { for p in [0u8, 1, 255] { vs.push((3, b, p)); } } }
    for (k, v) in vs.into_iter().enumerate() {
        if v.0 == 0 && v.1 == 0 { continue; }
        let mut r = simple(v, &[(0, 0, 2), (2, 1, 14)], k % 3, &[], rng); if k % 4 == 0 { r.metadata = None; } if (k + k / 5) % 5 == 2 { r.end = None; /* a game still in progress / cut short: refused or written by its version like any other */ } else if (k + k / 7) % 7 == 3 { r.double_end = true; /* ... and one with the duplicated Game End of some recorder versions */ } // zero frames included: the .slpp writer has no frames.arrow then
        let b = encode(&r);
        let exp_refuse = v > MAXV;
        let mut c = Case::new(format!("rt {}", hex(&b)), String::new()); c.tags = vec![format!("refuse{}", exp_refuse as u8), format!("frames{}", k % 3), if v.0 == 3 && (15..=17).contains(&v.1) { "boundary".into() } else { "far".into() }];
        let (l, g) = read_line(&b, false, false);
        match g { None => { c.impl_out = l; }
            Some(g) => { let w = write_slp(&g);
                c.impl_out = match &w { Ok(o) => format!("ok {}", hex(o)), Err(e) => e.clone() };
                if exp_refuse && w.is_ok() { c.fail("C09", format!(".slp writer accepted version {:?} > 3.16.0", v)); }
                if !exp_refuse { if let Err(e) = &w { c.fail("C09", format!(".slp writer refused version {:?} <= 3.16.0: {}", v, e)); } }
                let wo = [None, Some(peppi::io::peppi::ser::Opts { compression: None }), Some(peppi::io::peppi::ser::Opts { compression: Some(arrow2::io::ipc::write::Compression::LZ4) }), Some(peppi::io::peppi::ser::Opts { compression: Some(arrow2::io::ipc::write::Compression::ZSTD) })][(k + k / 4) % 4].clone(); /* the verdict does not depend on the writer's options */
                let pw = std::panic::catch_unwind(std::panic::AssertUnwindSafe(|| { let mut buf = vec![]; peppi::io::peppi::write(&mut buf, g, wo.as_ref()).map_err(|e| e.to_string()) }));
                match pw { Err(_) => c.fail("C09", format!(".slpp writer panicked for version {:?}", v)), Ok(Ok(())) => if exp_refuse { c.fail("C09", format!(".slpp writer accepted version {:?} > 3.16.0", v)); }, Ok(Err(e)) => if !exp_refuse { c.fail("C09", format!(".slpp writer refused version {:?} <= 3.16.0: {}", v, e)); } } } }
        ctx.push(c);
        // ... and not on the sizes of the blocks: a Game Start / Game End block longer than the version's layout (a recorder that appends fields without
        // raising the version; larger payloads are tolerated on reading) is written or refused by the version like any other
        if k % 3 == 1 { let mut r2 = r.clone(); let grow = [4usize, 40, 300, 1][(k / 3) % 4]; if (k / 3) % 2 == 0 || r2.end.is_none() { let n = r2.start_block.len().max(760) + grow; r2.start_block.resize(n, 0); } // (fields are located by block length: a block that ends inside a later layout's field is rejected, one that goes beyond the last layout is not)
            if let Some(e) = r2.end.as_mut() { if (k / 3) % 3 != 0 { let n = e.len().max(6) + 1 + (k / 9) % 3; e.resize(n, 0xff); } }
            let b2 = encode(&r2);
            let mut c = Case::new(format!("skipcase maxver-long-blocks {:?}", v), String::new()); c.tags = vec![format!("long-blocks refuse{}", exp_refuse as u8)];
            match read_line(&b2, false, false) { (l, None) => { c.impl_out = format!("unreadable: {}", &l[..l.len().min(80)]); }
                (_, Some(g)) => { let g = g;
                    let sw = std::panic::catch_unwind(std::panic::AssertUnwindSafe(|| { let mut buf = vec![]; slippi::write(&mut buf, &g).is_ok() }));
                    let pw = std::panic::catch_unwind(std::panic::AssertUnwindSafe(|| { let mut buf = vec![]; peppi::io::peppi::write(&mut buf, g, None).is_ok() }));
                    c.impl_out = format!("{:?} {:?}", sw.as_ref().ok(), pw.as_ref().ok());
                    for (name, res) in [(".slp", &sw), (".slpp", &pw)] { match res { Err(_) => c.fail("C09", format!("{} writer panics on a game of version {:?} with blocks longer than the version's layout", name, v)),
                        Ok(acc) => if *acc == exp_refuse { c.fail("C09", format!("{} writer {} version {:?} (Game Start of {} bytes, Game End of {:?})", name, if *acc { "accepted" } else { "refused" }, v, r2.start_block.len(), r2.end.as_ref().map(|e| e.len()))); } } } } }
            ctx.push(c); }
        // the verdict depends on the version alone: the same game with other metadata in memory (none, an empty map, no `startAt`, `startAt` of
        // another type, nested maps only) is refused / accepted all the same, without a panic
        if k % 2 == 1 { if let (Some(g0), Some(g0b)) = (read_line(&b, false, false).1, read_line(&b, false, false).1) { let shape = (k / 2 + k / 10) % 5;
            let md: Option<serde_json::Map<String, serde_json::Value>> = match shape { 0 => None, 1 => Some(serde_json::Map::new()),
                2 => { let mut m = serde_json::Map::new(); m.insert("playedOn".into(), "dolphin".into()); Some(m) }
                3 => { let mut m = serde_json::Map::new(); m.insert("startAt".into(), serde_json::Value::from(5)); m.insert("lastFrame".into(), serde_json::Value::from(-1)); Some(m) }
                _ => { let mut m = serde_json::Map::new(); m.insert("players".into(), serde_json::Value::Object(serde_json::Map::new())); Some(m) } };
            let mut c = Case::new(format!("skipcase maxver-metadata {:?} {}", v, shape), String::new()); c.tags = vec![format!("metadata-shape{} refuse{}", shape, exp_refuse as u8)];
            let mut g1 = g0b; g1.metadata = md.clone();
            let sw = std::panic::catch_unwind(std::panic::AssertUnwindSafe(|| { let mut buf = vec![]; slippi::write(&mut buf, &g1).is_ok() }));
            let mut g2 = g0; g2.metadata = md;
            let pw = std::panic::catch_unwind(std::panic::AssertUnwindSafe(|| { let mut buf = vec![]; peppi::io::peppi::write(&mut buf, g2, None).is_ok() }));
            c.impl_out = format!("{:?} {:?}", sw.as_ref().ok(), pw.as_ref().ok());
            for (name, res) in [(".slp", &sw), (".slpp", &pw)] { match res { Err(_) => c.fail("C09", format!("{} writer panics on a game of version {:?} with metadata shape {}", name, v, shape)),
                Ok(acc) => if *acc == exp_refuse { c.fail("C09", format!("{} writer {} version {:?} (metadata shape {})", name, if *acc { "accepted" } else { "refused" }, v, shape)); } } }
            ctx.push(c); } }
        // games the writers cannot serialise for other reasons (no occupied port with frames: the Arrow export panics, the recorded finding D6; a Gecko list
        // that is not a whole number of blocks) are still *refused* when they are newer than the maximum: the version is looked at first
        if exp_refuse && k % 2 == 0 { let r0 = simple(v, &[], 2, &[], rng); let b0 = encode(&r0);
            let mut c = Case::new(format!("skipcase newer-degenerate {:?}", v), String::new()); c.tags = vec!["newer-degenerate".into()];
            if let Some(g0) = read_line(&b0, false, false).1 {
                let pw = std::panic::catch_unwind(std::panic::AssertUnwindSafe(|| { let mut buf = vec![]; peppi::io::peppi::write(&mut buf, g0, None).map_err(|e| e.to_string()) }));
                match pw { Err(_) => { c.impl_out = "panic".into(); c.fail("C09", format!(".slpp writer panics instead of refusing a game of version {:?} (no occupied port)", v)); } Ok(Ok(())) => { c.impl_out = "ok".into(); c.fail("C09", format!(".slpp writer accepted version {:?} > 3.16.0", v)); } Ok(Err(_)) => c.impl_out = "err".into() } }
            if let Some(mut g1) = read_line(&b, false, false).1 { g1.gecko_codes = Some(peppi::game::GeckoCodes { bytes: vec![7u8; 700], actual_size: 700 });
                let sw = std::panic::catch_unwind(std::panic::AssertUnwindSafe(|| { let mut buf = vec![]; slippi::write(&mut buf, &g1).map_err(|e| e.to_string()) }));
                match sw { Err(_) => c.fail("C09", format!(".slp writer panics instead of refusing a game of version {:?} (Gecko list of 700 bytes)", v)), Ok(Ok(())) => c.fail("C09", format!(".slp writer accepted version {:?} > 3.16.0", v)), Ok(Err(_)) => {} } }
            ctx.push(c); }
    }
}

/// C09 over the whole version space: both real writers on a tiny game whose version field is set to every
/// (major, minor, patch) of a grid (quick: every major x every minor x patches {0,1,255}; thorough: all 2^24 triples for the
/// .slp writer).  One case per major; the model prints the refusal bitmap of `assertMaxVersion` for the same grid.
fn vgrid(rng: &mut Rng, ctx: &mut Ctx) {
    let r = simple((3, 16, 0), &[(0, 0, 2)], 0, &[], rng);
    let b = encode(&r);
    let mut g = match read_line(&b, false, false).1 { Some(g) => g, None => { let mut c = Case::new("vgrid 0 0".into(), String::new()); c.fail("C09", "base game unreadable"); ctx.push(c); return; } };
    let patches: Vec<u8> = if ctx.thorough { (0..=255u8).collect() } else { vec![0, 1, 255] };
    let pl = patches.iter().map(|p| p.to_string()).collect::<Vec<_>>().join(",");
    let is_ver_err = |e: &str| e.contains("unsupported version");
    for major in 0..=255u8 {
        let mut c = Case::new(format!("vgrid {} {}", major, pl), String::new()); c.tags = vec![format!("major-class{}", if major < 3 { "lt" } else if major == 3 { "eq" } else { "gt" })];
        let mut bits = String::with_capacity(256 * patches.len());
        for minor in 0..=255u8 { for &p in &patches {
            let v = (major, minor, p);
            g.start.slippi.version = slippi::Version(major, minor, p);
            let w = std::panic::catch_unwind(std::panic::AssertUnwindSafe(|| { let mut out = vec![]; slippi::write(&mut out, &g).map_err(|e| e.to_string()) }));
            let refused = match &w { Ok(Err(e)) if is_ver_err(e) => true, _ => false };
            bits.push(if refused { '1' } else { '0' });
            if (v > MAXV) != refused { c.fail("C09", format!(".slp writer {} version {:?} (maximum 3.16.0)", if refused { "refused" } else { "did not refuse" }, v)); }
            // the .slpp writer consumes the game (which is not Clone), so it gets a freshly read one: boundary rows and columns of the grid
            if (minor % 16 == 0 || (14..=18).contains(&minor) || minor == 255) && (p < 2 || p == 255) {
                let mut g2 = match read_line(&b, false, false).1 { Some(g) => g, None => continue }; g2.start.slippi.version = slippi::Version(major, minor, p);
                let pw = std::panic::catch_unwind(std::panic::AssertUnwindSafe(|| { let mut out = vec![]; peppi::io::peppi::write(&mut out, g2, None).map_err(|e| e.to_string()) }));
                let prefused = match &pw { Ok(Err(e)) if is_ver_err(e) => true, _ => false };
                if (v > MAXV) != prefused { c.fail("C09", format!(".slpp writer {} version {:?} (maximum 3.16.0)", if prefused { "refused" } else { "did not refuse" }, v)); }
            }
        } }
        c.impl_out = format!("grid {}", bits);
        ctx.push(c);
    }
}

// ------------------------------------------------------------------ incremental API and fragmentation (C11, C12, C06 I/O errors)

/// a reader that hands out its bytes in pieces and can fail at a chosen read call
pub struct Chunked { data: Vec<u8>, pos: usize, plan: Vec<usize>, pub call: usize, fail_at: Option<usize>, pub interrupt_every: usize }
impl Chunked { pub fn new(data: Vec<u8>, plan: Vec<usize>, fail_at: Option<usize>) -> Self { Chunked { data, pos: 0, plan, call: 0, fail_at, interrupt_every: 0 } } }
impl Read for Chunked {
    fn read(&mut self, buf: &mut [u8]) -> std::io::Result<usize> {
        let call = self.call; self.call += 1;
        if Some(call) == self.fail_at { return Err(std::io::Error::new(std::io::ErrorKind::Other, "injected read error")); }
        // `ErrorKind::Interrupted` is not an error: `read_exact`, `io::copy`, `read_to_end` retry it
        if self.interrupt_every > 0 && call % self.interrupt_every == self.interrupt_every - 1 { return Err(std::io::Error::new(std::io::ErrorKind::Interrupted, "EINTR")); }
        if buf.is_empty() { return Ok(0); }
        let k = self.plan[call % self.plan.len()].max(1);
        let n = k.min(buf.len()).min(self.data.len() - self.pos);
        buf[..n].copy_from_slice(&self.data[self.pos..self.pos + n]); self.pos += n; Ok(n)
    }
}
impl Seek for Chunked {
    fn seek(&mut self, s: SeekFrom) -> std::io::Result<u64> {
        let np = match s { SeekFrom::Start(x) => x as i64, SeekFrom::Current(d) => self.pos as i64 + d, SeekFrom::End(d) => self.data.len() as i64 + d };
        if np < 0 { return Err(std::io::Error::new(std::io::ErrorKind::InvalidInput, "seek before start")); }
        self.pos = (np as usize).min(self.data.len()); Ok(self.pos as u64)
    }
}

/// one-shot read through a source that returns short reads, dumped like `read_line`
pub fn read_line_chunked(b: &[u8], skip: bool, hash: bool, plan: Vec<usize>) -> String {
    let o = read_opts(skip, hash);
    let res = std::panic::catch_unwind(|| slippi::read(Chunked::new(b.to_vec(), plan, None), Some(&o)));
    match res { Err(_) => "panic".to_string(), Ok(Err(e)) => format!("err {}", e), Ok(Ok(g)) => {
        match std::panic::catch_unwind(std::panic::AssertUnwindSafe(|| dump::summary(&g))) {
            Ok(mut s) => { s }
            Err(_) => "panic-in-dump".to_string() } } }
}

/// a sink that accepts at most `k` bytes per `write` call (pipes, sockets), can be interrupted, and can fail at a chosen call
pub struct ShortSink { pub out: Vec<u8>, k: usize, call: usize, fail_at: Option<usize>, interrupt_every: usize }
impl ShortSink { pub fn new(k: usize, fail_at: Option<usize>, interrupt_every: usize) -> Self { ShortSink { out: vec![], k: k.max(1), call: 0, fail_at, interrupt_every } }
    pub fn calls(&self) -> usize { self.call } }
impl std::io::Write for ShortSink {
    fn write(&mut self, buf: &[u8]) -> std::io::Result<usize> {
        let call = self.call; self.call += 1;
        if Some(call) == self.fail_at { return Err(std::io::Error::new(std::io::ErrorKind::Other, "injected write error")); }
        if self.interrupt_every > 0 && call % self.interrupt_every == self.interrupt_every - 1 { return Err(std::io::Error::new(std::io::ErrorKind::Interrupted, "EINTR")); }
        let n = self.k.min(buf.len()); self.out.extend_from_slice(&buf[..n]); Ok(n)
    }
    fn flush(&mut self) -> std::io::Result<()> { Ok(()) }
}

fn plans(rng: &mut Rng, len: usize, k: usize) -> (Vec<usize>, String) {
    match k % 6 { 0 => (vec![1], "1".into()), 1 => (vec![2, 3, 7], "2,3,7".into()), 2 => (vec![(rng.next() as usize) % len.max(1) + 1, usize::MAX / 2], "two-piece".into()),
        3 => ((0..16).map(|_| 1 + (rng.next() % 9) as usize).collect(), "random-small".into()), 4 => ((0..8).map(|_| 1 + (rng.next() % 700) as usize).collect(), "random-large".into()), _ => (vec![4096], "4096".into()) }
}

/// compare the completed frames of the in-progress state with the final game
fn completed_prefix_ok(st: &slippi::de::ParseState, g: &Game, upto: usize) -> Result<(), String> {
    use peppi::game::Game as _;
    let mf = st.frames(); let fr = &g.frames;
    if mf.id.len() > fr.id.len() { return Err("more frames in progress than in the final game".into()); }
    for i in 0..upto {
        if mf.id.values()[i] != fr.id.values()[i] { return Err(format!("id of completed frame {} differs", i)); }
        let mut ms = vec![]; for p in &mf.ports { ms.push(&p.leader); if let Some(f) = &p.follower { ms.push(f); } }
        let mut fs = vec![]; for p in &fr.ports { fs.push(&p.leader); if let Some(f) = &p.follower { fs.push(f); } }
        if ms.len() != fs.len() { return Err("slot count differs".into()); }
        for (m, f) in ms.iter().zip(&fs) {
            if m.pre.random_seed.len() <= i || m.post.character.len() <= i { return Err(format!("completed frame {} lacks a row in a character column", i)); }
            let mv = m.validity.as_ref().map_or(true, |b| b.get(i)); let fv = f.validity.as_ref().map_or(true, |b| b.get_bit(i));
            if mv != fv { return Err(format!("presence bit of completed frame {} differs", i)); }
            if mv && (dump::mu_pre_row(&m.pre, i) != dump::pre_row(&f.pre, i) || dump::mu_post_row(&m.post, i) != dump::post_row(&f.post, i)) { return Err(format!("values of completed frame {} differ", i)); }
        }
        if let (Some(a), Some(b)) = (&mf.start, &fr.start) { if dump::mu_start_row(a, i) != dump::start_row(b, i) { return Err(format!("start row {} differs", i)); } }
        if let (Some(a), Some(b)) = (&mf.end, &fr.end) { if a.latest_finalized_frame.as_ref().map_or(false, |c| c.len() <= i) { return Err(format!("end row {} missing", i)); } if dump::mu_end_row(a, i) != dump::end_row(b, i) { return Err(format!("end row {} differs", i)); } }
        if let (Some(a), Some(b), Some(ma), Some(fb)) = (&mf.item_offset, &fr.item_offset, &mf.item, &fr.item) {
            if a.as_slice().len() <= i + 1 { return Err(format!("item offsets of completed frame {} missing", i)); }
            if a.as_slice()[i] != b.as_slice()[i] || a.as_slice()[i + 1] != b.as_slice()[i + 1] { return Err(format!("item offsets of completed frame {} differ", i)); }
            for j in a.as_slice()[i] as usize..a.as_slice()[i + 1] as usize { if dump::mu_item_row(ma, j) != dump::item_row(fb, j) { return Err(format!("item row {} differs", j)); } }
        }
        // the row view of the in-progress representation (C13): the same values as the final columns at that index
        if i + 3 >= upto || i == 0 { let t = st.frame(i); if let Err(e) = compare_view(&t, fr, i) { return Err(format!("row view of the in-progress representation: {}", e)); } }
    }
    Ok(())
}

fn inc(rng: &mut Rng, ctx: &mut Ctx) {
    use peppi::game::Game as _;
    let go = GenOpts { max_frames: if ctx.thorough { 14 } else { 6 }, newer: false, force: None };
    for k in 0..ctx.n {
        let (mut r, mut tags) = gen_replay(rng, k, &go);
        // one game in five carries an event of a kind the library does not know, of a boundary size (1, 300, 65534, 65535), somewhere after the
        // Gecko list: the event-level API skips it and counts exactly the bytes it consumed
        let b = if k % 5 == 3 { let pad = Pad::default(); let sz = [65535u16, 1, 300, 65534][(k / 5) % 4]; r.extra_payloads.push((0x7E, sz)); let mut body = body_events(&r, &pad); let ng = gecko_events(&r).len().min(body.len());
                let at = ng + (rng.next() as usize) % (body.len() - ng + 1); let mut e = vec![0x7Eu8]; e.extend(rng.bytes(sz as usize)); body.insert(at, e); tags.push(format!("inc-unknown:{}", sz)); assemble(&r, &table(&r, &pad), &body, &[], &pad) }
            // one game in seven lists an event code twice in the payload-size table (a recorder that appends an entry it already wrote): the later
            // entry is the one in force; the table is as many bytes longer and is counted as such
            else if k % 7 == 4 { let pad = Pad::default(); let mut sizes = table(&r, &pad); let i = 1 + (rng.next() as usize) % (sizes.len() - 1).max(1); let i = i.min(sizes.len() - 1); let e = sizes[i];
                match (k / 7) % 3 { 0 => sizes.insert(i, (e.0, e.1.wrapping_add(5))), 1 => sizes.push(e), _ => { sizes.insert(1, (e.0, 1)); sizes.push(e); } }
                tags.push(format!("dup-table-entry:{}", (k / 7) % 3)); assemble(&r, &sizes, &body_events(&r, &Pad::default()), &[], &pad) }
            else { encode(&r) };
        // one game in thirteen carries its Gecko list as a plain 0x3D event (a recorder that does not split a short list): both readers report the same list
        let b = if k % 13 == 8 && k % 5 != 3 && k % 7 != 4 && r.gecko.is_none() { let pad = Pad::default(); let sz = [40u16, 512, 1, 600][(k / 13) % 4]; let mut sizes = table(&r, &pad); sizes.push((0x3D, sz));
            let mut body = body_events(&r, &pad); let mut e = vec![0x3Du8]; e.extend(rng.bytes(sz as usize)); body.insert(0, e); tags.push(format!("inc-plain-gecko:{}", sz)); assemble(&r, &sizes, &body, &[], &pad) } else { b };
        // one game in eleven has a Game Start block longer than the newest layout (a newer recorder): the start call counts all of it
        let b = if k % 11 == 6 && k % 5 != 3 && k % 7 != 4 { let mut r2 = r.clone(); let n = r2.start_block.len().max(760) + [1usize, 4, 37, 300][(k / 11) % 4]; r2.start_block.resize(n, 0); tags.push("inc-long-start".into()); encode(&r2) } else { b };
        // one finished game in nine has raw length 0 in its header (the recorder never went back to fill it in): the event-level API is driven up to
        // Game End then, and the one-shot reader must return the same game
        let raw_end_real = 15 + u32::from_be_bytes([b[11], b[12], b[13], b[14]]) as usize;
        let b = if k % 9 == 7 && r.end.is_some() && !r.double_end { let mut b = b; b[11..15].copy_from_slice(&[0, 0, 0, 0]); tags.push("inc-rawlen0".into()); b } else { b };
        let (plan, pname) = plans(rng, b.len(), k);
        let (fl, fg) = read_line(&b, false, false);
        let mut fails: Vec<(String, String)> = vec![];
        let res = std::panic::catch_unwind(std::panic::AssertUnwindSafe(|| -> Result<String, String> {
            let og = fg.as_ref(); // the incremental API is driven even when the one-shot reader fails: a well-formed file must be accepted by both
            let mut src = Chunked::new(b.clone(), plan.clone(), None);
            let raw_len = slippi::de::parse_header(&mut src, None).map_err(|e| format!("err {}", e))? as usize;
            let mut st = slippi::de::parse_start(&mut src, None).map_err(|e| format!("err {}", e))?;
            let mut trace = vec![format!("{}:{}", st.frames().id.len(), st.bytes_read())];
            if st.bytes_read() != src.pos - 15 { fails.push(("C12".into(), format!("after parse_start bytes_read {} != raw bytes consumed {}", st.bytes_read(), src.pos - 15))); }
            let mut last_len = 0;
            while raw_len == 0 || st.bytes_read() < raw_len {
                let code = slippi::de::parse_event(&mut src, &mut st, None).map_err(|e| format!("err {}", e))?;
                let len = st.frames().id.len();
                trace.push(format!("{}:{}", len, st.bytes_read()));
                if st.bytes_read() != src.pos - 15 { fails.push(("C12".into(), format!("bytes_read {} != raw bytes consumed {}", st.bytes_read(), src.pos - 15))); }
                if len < last_len { fails.push(("C12".into(), "frame count decreased".into())); } last_len = len;
                // frames known to be complete: all but the newest, and the newest too once its Frame End has been seen
                let complete = if code == 0x3C { len } else { len.saturating_sub(1) };
                if let Some(g) = og { if let Err(e) = completed_prefix_ok(&st, g, complete) { if fails.len() < 3 { fails.push(("C12".into(), format!("after {} events: {}", trace.len() - 1, e))); fails.push(("C13".into(), format!("in-progress representation: {}", e)));
                    if e.contains("lacks a row") || e.contains("presence bit") { fails.push(("C04".into(), format!("event-level API, after {} events (a frame just completed): {} — every column has one entry per frame row, and the presence bit is the character's", trace.len() - 1, e))); } } } }
                if code == 0x39 { break; }
            }
            // what `read` does after the loop
            if st.bytes_read() < raw_len {
                if k % 2 == 1 && r.double_end {
                    // a driver that keeps handing events to parse_event until the raw element is used up (the duplicated Game End is a declared event)
                    while st.bytes_read() < raw_len { slippi::de::parse_event(&mut src, &mut st, None).map_err(|e| format!("err {}", e))?;
                        if st.bytes_read() != src.pos - 15 { fails.push(("C12".into(), format!("after the duplicated Game End: bytes_read {} != raw bytes consumed {}", st.bytes_read(), src.pos - 15))); break; } }
                } else { let mut junk = vec![0; raw_len - st.bytes_read()]; src.read_exact(&mut junk).map_err(|e| format!("err {}", e))?; } }
            let mut one = [0u8; 1]; src.read_exact(&mut one).map_err(|e| format!("err {}", e))?;
            if one[0] == 0x55 { slippi::de::parse_metadata(&mut src, &mut st, None).map_err(|e| format!("err {}", e))?; }
            if let Some(g) = og {
            if start_json(st.start()) != start_json(&g.start) || end_json(st.end()) != end_json(&g.end) || st.metadata() != &g.metadata || st.gecko_codes() != &g.gecko_codes { fails.push(("C12".into(), "incremental start/end/metadata/gecko differ from the one-shot game".into())); }
                if st.frames().id.values().as_slice() != g.frames.id.values().as_slice() { fails.push(("C12".into(), "incremental frame ids differ from the one-shot game".into())); }
                if st.len() != g.frames.id.len() { fails.push(("C12".into(), format!("the in-progress game reports {} frames (Game::len) at the end of the stream, the one-shot game has {}", st.len(), g.frames.id.len()))); }
                let n = g.frames.id.len();
                // all frames but a possibly still-open last one (versions < 3.0 close lazily)
                let upto = if r.v >= (3, 0, 0) { n } else { n.saturating_sub(1) };
                if let Err(e) = completed_prefix_ok(&st, g, upto) { fails.push(("C12".into(), format!("final incremental state: {}", e))); }
            } else { fails.push(("C12".into(), format!("the one-shot reader fails ({}) on bytes the incremental API parses to the end", &fl[..fl.len().min(120)]))); }
            Ok(format!("ok {}", trace.join(",")))
        }));
        let line = match res { Err(_) => { fails.push(("C06".into(), "incremental API panicked on a well-formed replay".into())); "panic".into() } Ok(Err(e)) => { if fl.starts_with("ok") { fails.push(("C12".into(), format!("incremental parse failed where one-shot succeeds: {}", e))); } e } Ok(Ok(s)) => s };
        // the one-shot reader on the same bytes embedded in a larger stream (not at position 0, more bytes behind): the incremental API never seeks,
        // so the one-shot reader must not depend on absolute positions either
        if (k + k / 12) % 3 == 0 { /* (drifts against the container shapes, which repeat every 12 cases: every shape meets the embedded read) */ let pre = [3usize, 15, 64, 700][(k / 3) % 4]; let at = read_line_at(&b, false, false, pre, [0usize, 9][(k / 12) % 2]);
            if at != fl { fails.push(("C12".into(), format!("one-shot read from stream position {} differs from the one at position 0 (which the incremental API agrees with): {} vs {}", pre, &at[..at.len().min(100)], &fl[..fl.len().min(100)]))); }
            tags.push("embedded".into()); }
        let mut c = Case::new(format!("inc {}", hex(&b)), line); c.oracle = fails; tags.push(format!("plan:{}", pname)); c.tags = tags;
        ctx.push(c);
        // the event-level API with the skip-frames option set (it only matters to `read`): no panic, same events accepted
        if k % 4 == 2 { let o = read_opts(true, false);
            let res = std::panic::catch_unwind(|| -> Result<usize, String> { let mut src = Cursor::new(&b); let raw_len = slippi::de::parse_header(&mut src, Some(&o)).map_err(|e| e.to_string())? as usize; let mut st = slippi::de::parse_start(&mut src, Some(&o)).map_err(|e| e.to_string())?;
                let mut n = 0; while st.bytes_read() < raw_len { let code = slippi::de::parse_event(&mut src, &mut st, Some(&o)).map_err(|e| e.to_string())?; n += 1; if code == 0x39 { break; } } Ok(n) });
            let mut c = Case::new(format!("skipcase inc-with-skip-option {}", k), String::new()); c.tags = vec!["inc-skip-opt".into()];
            match res { Err(_) => { c.impl_out = "panic".into(); c.fail("C06", "the event-level API panics when the skip-frames option is set".to_string()); } Ok(Err(e)) => { c.impl_out = format!("err {}", e); if fl.starts_with("ok") { c.fail("C12", format!("the event-level API rejects a well-formed replay when the skip-frames option is set: {}", e)); } } Ok(Ok(n)) => c.impl_out = format!("ok {}", n) }
            ctx.push(c); }
        // the incremental API on a stream that ends inside the raw element: every call that returns Ok has consumed exactly the bytes it was
        // given (bytes_read == stream position), and no Game End is reported unless its whole payload was there
        if k % 2 == 1 && b.len() > 40 { let raw_end = raw_end_real;
            // cuts: inside the last Game End payload (1 byte in, 1 byte short), and two random positions inside the raw element
            let elen = r.end.as_ref().map_or(0, |e| e.len());
            // only cuts that leave the *first* Game End event incomplete (with a duplicated Game End, a cut inside the second copy leaves a finished game)
            let limit = if r.end.is_some() { raw_end - (if r.double_end { 2 } else { 1 }) * (1 + elen) + elen } else { raw_end - 1 };
            let mut cuts = vec![15 + (rng.next() as usize) % (limit - 15).max(1), 15 + (rng.next() as usize) % (limit - 15).max(1)];
            if r.end.is_some() && !r.double_end && elen >= 2 { cuts.push(raw_end - elen + 1); cuts.push(raw_end - 1); }
            // cuts inside an event of a kind the library does not know (one byte in, half way, one byte short): the call that meets the end of the data there
            // is an error like for any other event (a reader tailing a growing file waits for more), never a skipped event
            let mut unk_cuts: Vec<usize> = vec![];
            if k % 5 == 3 { let mut cur = Cursor::new(&b[..]); if slippi::de::parse_header(&mut cur, None).is_ok() { if let Ok(mut st0) = slippi::de::parse_start(&mut cur, None) {
                loop { let p0 = cur.position() as usize; match slippi::de::parse_event(&mut cur, &mut st0, None) { Ok(code) => { let p1 = cur.position() as usize; if code == 0x7E && p1 - p0 >= 2 { unk_cuts = vec![p0 + 1, p0 + 1 + (p1 - p0 - 1) / 2, p1 - 1]; break; } if code == 0x39 || p1 >= raw_end { break; } } Err(_) => break } } } } }
            cuts.extend(unk_cuts.iter().cloned());
            for cut in cuts { if cut >= raw_end || cut > limit || cut <= 16 { continue; }
                let data = b[..cut].to_vec(); let mut fails: Vec<(String, String)> = vec![];
                let res = std::panic::catch_unwind(std::panic::AssertUnwindSafe(|| -> Result<String, String> {
                    let mut src = Chunked::new(data.clone(), vec![7, 64, 1], None);
                    slippi::de::parse_header(&mut src, None).map_err(|e| format!("err {}", e))?;
                    let mut st = slippi::de::parse_start(&mut src, None).map_err(|e| format!("err {}", e))?;
                    loop { let code = match slippi::de::parse_event(&mut src, &mut st, None) { Ok(c) => c, Err(e) => {
                            // history: a caller that tails a growing file asks again once more data is there (the same event from its first byte, the bytes being
                            // available now); one that gives up on an event carries on with the next call: an error leaves the state usable — no panic
                            let _ = slippi::de::parse_event(&mut src, &mut st, None);
                            let from = (15 + st.bytes_read()).min(b.len()); let mut again = Cursor::new(&b[from..]);
                            // ... and on to the end of the raw element: the frames are those of the one-shot read (nothing of the failed attempt sticks)
                            let mut done = true; while st.bytes_read() < raw_end - 15 { match slippi::de::parse_event(&mut again, &mut st, None) { Ok(0x39) => break, Ok(_) => {} Err(_) => { done = false; break; } } }
                            if done { if let Some(g) = fg.as_ref() { let n = st.frames().id.len();
                                if n != g.frames.id.len() { let m = format!("stream cut at {}, event retried once its bytes were there: {} frames, the one-shot read has {}", cut, n, g.frames.id.len()); fails.push(("C12".into(), m.clone())); fails.push(("C04".into(), m)); }
                                else if let Err(m) = completed_prefix_ok(&st, g, n.saturating_sub(1)) { let m = format!("stream cut at {}, event retried once its bytes were there: {}", cut, m); fails.push(("C03".into(), m.clone())); fails.push(("C12".into(), m.clone())); fails.push(("C04".into(), m)); } } }
                            return Err(format!("err {}", e)); } };
                        if st.bytes_read() != src.pos - 15 { fails.push(("C12".into(), format!("stream cut at {}: after event {:#x} bytes_read {} != bytes delivered {}", cut, code, st.bytes_read(), src.pos - 15))); if unk_cuts.contains(&cut) { fails.push(("C08".into(), format!("stream ending inside an unknown event (cut at {}): the event-level API reports the event as read", cut))); } return Ok("ok overcount".into()); }
                        if code == 0x39 { fails.push(("C12".into(), format!("stream cut at {} (inside the raw element of {} bytes): the incremental API reports Game End", cut, raw_end - 15))); fails.push(("C07".into(), "incremental API reports a finished game on a truncated stream".into())); return Ok("ok gameend".into()); } } }));
                let line = match res { Err(_) => { fails.push(("C06".into(), "incremental API panicked on a truncated stream".into())); "panic".to_string() } Ok(Err(_)) => "err".to_string(), Ok(Ok(s)) => s };
                let mut c = Case::new(format!("inccut {} {}", cut, hex(&b)), line); c.oracle = fails; c.tags = vec!["inc-cut".into()]; ctx.push(c); } }
    }
}

fn frag(rng: &mut Rng, ctx: &mut Ctx) {
    let go = GenOpts { max_frames: if ctx.thorough { 12 } else { 5 }, newer: false, force: None };
    for k in 0..ctx.n {
        let (r, mut tags) = gen_replay(rng, k, &go);
        let b = encode(&r);
        let skip = k % 3 == 1 && r.end.is_some(); let hash = k % 4 != 3;
        let (plan, pname) = plans(rng, b.len(), k / 2 + k / 12);
        let (fl, fg) = read_line(&b, skip, hash);
        let o = read_opts(skip, hash);
        let xx = format!("xxh3:{:016x}", xxhash_rust::xxh3::xxh3_64(&b));
        let mut c = Case::new(reads_cmd(skip, hash, &plan, &b), String::new());
        let res = std::panic::catch_unwind(|| slippi::read(Chunked::new(b.clone(), plan.clone(), None), Some(&o)));
        match res { Err(_) => { c.impl_out = "panic".into(); c.fail("C06", "reader panicked under short reads"); }
            Ok(Err(e)) => { c.impl_out = format!("err {}", e); if fg.is_some() { c.fail("C05", format!("Game Start / Game End not found where they are when the source returns short reads ({}, skip={}, hash={}): {}", pname, skip, hash, e)); c.fail("C12", format!("read fails under fragmentation {}: {}", pname, e)); c.fail("C11", "read fails under fragmentation"); if !skip { c.fail("C01", format!("a well-formed replay is rejected when its source returns short reads ({}): {}", pname, e)); } if skip { c.fail("C10", format!("skip-frames read fails over a stream with short reads ({}): {}", pname, e)); } } }
            Ok(Ok(g)) => { let mut s = dump::summary(&g); c.impl_out = s.clone();
                if s != fl { c.fail("C12", format!("game read under fragmentation {} differs from the unfragmented read", pname)); }
                // the history oracle (spec offsets, presence, rows per frame) on what was read through short reads, hashing on or off
                if !skip { check_frames(&r, &g, &mut c); }
                if skip { if let Some(f) = &fg { if start_json(&g.start) != start_json(&f.start) || end_json(&g.end) != end_json(&f.end) || g.metadata != f.metadata { c.fail("C10", format!("skip-frames start/end/metadata differ over a stream with short reads ({})", pname)); } } }
                if let Some(f) = &fg { if start_json(&g.start) != start_json(&f.start) || end_json(&g.end) != end_json(&f.end) || g.end.as_ref().map(|e| &e.bytes.0) != f.end.as_ref().map(|e| &e.bytes.0) { c.fail("C05", format!("Game Start / Game End fields read through short reads ({}, skip={}, hash={}) are not those of the blocks: {} vs {}", pname, skip, hash, end_json(&g.end), end_json(&f.end))); } }
                if hash { if g.hash.as_deref() != Some(xx.as_str()) { c.fail("C11", format!("hash under fragmentation {} (skip={}) is {:?}, XXH3-64 of the file is {}", pname, skip, g.hash, xx)); } } else if g.hash.is_some() { c.fail("C11", "hash reported though not requested"); } } }
        tags.push(format!("plan:{}", pname)); tags.push(format!("skip{}", skip as u8)); tags.push(format!("hash{}", hash as u8)); c.tags = tags;
        ctx.push(c);
        // the same read over a source that is interrupted (EINTR) every few calls: exact reads retry, the result is the same
        if (k + k / 3) % 3 == 0 { /* (drifts against skip = k % 3 == 1: interrupted sources meet skip-frames and hashing in every combination) */
            let mut src = Chunked::new(b.clone(), plan.clone(), None); src.interrupt_every = 2 + k % 5;
            let res = std::panic::catch_unwind(move || slippi::read(src, Some(&read_opts(skip, hash))));
            let mut ihash: Option<Option<String>> = None;
            let il = match res { Err(_) => "panic".to_string(), Ok(Err(e)) => format!("err {}", e), Ok(Ok(g)) => { ihash = Some(g.hash.clone()); let mut s = dump::summary(&g); s } };
            let mut c = Case::new(reads_cmd(skip, hash, &plan, &b), il.clone()); c.tags = vec!["eintr-read".into()];
            if let Some(h) = ihash { if hash && h.as_deref() != Some(xx.as_str()) { c.fail("C11", format!("hash over a source interrupted every {} calls (skip={}) is {:?}, XXH3-64 of the file is {}", 2 + k % 5, skip, h, xx)); } if !hash && h.is_some() { c.fail("C11", "hash reported though not requested"); } }
            if il != fl { let m = format!("read over a source interrupted every {} calls differs from the plain read: {} vs {}", 2 + k % 5, &il[..il.len().min(100)], &fl[..fl.len().min(100)]); c.fail("C12", m.clone()); if hash { c.fail("C11", m.clone()); } if skip { c.fail("C10", m.clone()); } c.fail("C06", m); }
            ctx.push(c);
        }
        // writers over sinks that take a few bytes per call / are interrupted: same bytes as into a Vec; an injected error surfaces as Err
        if k % 3 == 2 && !skip { if let Some(g) = &fg { if g.start.slippi.version <= slippi::MAX_SUPPORTED_VERSION {
            let want = write_slp(g);
            let mut sink = ShortSink::new([1usize, 3, 7, 64, 4096][k % 5], None, if k % 2 == 0 { 3 } else { 0 });
            let got = std::panic::catch_unwind(std::panic::AssertUnwindSafe(|| slippi::write(&mut sink, g).map_err(|e| e.to_string())));
            let mut c = Case::new(format!("rt {}", hex(&b)), match &want { Ok(o) => format!("ok {}", hex(o)), Err(e) => e.clone() }); c.tags = vec!["short-sink".into()];
            match (&want, got) { (Ok(o), Ok(Ok(()))) => { if &sink.out != o { let m = format!(".slp written into a sink that takes {} bytes per call differs from the one written into a Vec (lengths {} vs {})", [1usize, 3, 7, 64, 4096][k % 5], sink.out.len(), o.len()); c.fail("C01", m.clone()); c.fail("C17", m); } }
                (Ok(_), Ok(Err(e))) => { let m = format!(".slp writer fails on a short-writing sink: {}", e); c.fail("C01", m.clone()); c.fail("C17", m); }
                (_, Err(_)) => { c.fail("C01", ".slp writer panicked on a short-writing sink"); c.fail("C17", ".slp writer panicked on a short-writing sink"); } _ => {} }
            ctx.push(c);
        } } }
        // injected I/O errors must surface as errors (a few read calls per file)
        if k % 2 == 0 {
            let total_calls = { let mut probe = Chunked::new(b.clone(), plan.clone(), None); let _ = slippi::read(&mut probe, Some(&o)); probe.call };
            let mut bad = vec![];
            let picks: Vec<usize> = if total_calls <= 12 { (0..total_calls).collect() } else { (0..12).map(|_| (rng.next() as usize) % total_calls).collect() };
            for j in &picks {
                let res = std::panic::catch_unwind(|| slippi::read(Chunked::new(b.clone(), plan.clone(), Some(*j)), Some(&o)));
                match res { Ok(Err(_)) => {} Ok(Ok(_)) => bad.push((*j, "returned a game")), Err(_) => bad.push((*j, "panicked")) }
            }
            let mut c = Case::new(format!("ioerr {} {} {}", skip as u8, hash as u8, picks.len()), if bad.is_empty() { "allerr".into() } else { format!("bad {:?}", bad) });
            for (j, w) in bad.iter().take(2) { c.fail("C06", format!("read error injected at read call {} of {}: reader {}", j, total_calls, w)); }
            c.tags = vec!["ioerr".into()]; ctx.push(c);
        }
    }
}

// ------------------------------------------------------------------ normalisation (C19)

fn norm(rng: &mut Rng, ctx: &mut Ctx) {
    use peppi::game::shift_jis::MeleeString;
    let exp = |c: char| -> char { let u = c as u32; let v = match u { 0xff01..=0xff5e => u - 0xfee0, 0x3000 => 0x20, 0x2019 => 0x27, 0x201d => 0x22, _ => u }; char::from_u32(v).unwrap() };
    let one = |cps: Vec<char>, ctx: &mut Ctx| {
        let s: String = cps.iter().collect();
        let res = std::panic::catch_unwind(|| { let n = MeleeString(s.clone()).to_normalized(); let nn = MeleeString(n.clone()).to_normalized(); (n, nn) });
        let mut c = Case::new(format!("norm {}", cps.iter().map(|c| (*c as u32).to_string()).collect::<Vec<_>>().join(",")), String::new()); c.tags = vec!["norm".into()];
        match res { Err(_) => { c.impl_out = "panic".into(); c.fail("C19", "to_normalized panicked"); }
            Ok((n, nn)) => { c.impl_out = format!("ok {}", n.chars().map(|c| (c as u32).to_string()).collect::<Vec<_>>().join(","));
                let e: String = cps.iter().map(|c| exp(*c)).collect(); if n != e { c.fail("C19", format!("normalisation of {:?} is {:?}, expected {:?}", s, n, e)); } if nn != n { c.fail("C19", "normalisation is not idempotent"); } } }
        ctx.push(c);
    };
    // boundaries of every mapped range, in every run
    for u in [0xff00u32, 0xff01, 0xff02, 0xff5d, 0xff5e, 0xff5f, 0x3000, 0x2fff, 0x3001, 0x2019, 0x2018, 0x201a, 0x201d, 0x201c, 0x201e, 0x20, 0x21, 0x7e, 0x7f, 0, 0xd7ff, 0xe000, 0x10ffff, 0xfee0, 0xff20, 0xff21, 0xff3a, 0xff41] { one(vec![char::from_u32(u).unwrap()], ctx); }
    // every character of the mapped block U+FF01..U+FF5E and its neighbours, one by one and embedded, in every run (the block spans two UTF-8 lead sequences)
    for u in 0xfef0u32..=0xff70 { if let Some(ch) = char::from_u32(u) { one(vec![ch], ctx); one(vec!['a', ch, 'b'], ctx); } }
    if ctx.thorough { let mut u = 0u32; while u < 0x110000 { let chunk: Vec<char> = (u..(u + 64).min(0x110000)).filter_map(char::from_u32).collect(); if !chunk.is_empty() { one(chunk, ctx); } u += 64; } }
    for _ in 0..ctx.n { let len = 1 + (rng.next() % 12) as usize; let cps: Vec<char> = (0..len).filter_map(|_| char::from_u32(match rng.next() % 5 { 0 => 0xff00 + (rng.next() % 0x70) as u32, 1 => [0x3000u32, 0x2019, 0x201d, 0x2018][(rng.next() % 4) as usize], 2 => (rng.next() % 128) as u32, 3 => (rng.next() % 0x110000) as u32, _ => 0x3040 + (rng.next() % 0x60) as u32 })).collect(); if !cps.is_empty() { one(cps, ctx); } }
    // field decoding: all single bytes and a sweep of byte pairs in a 16-byte name-tag field, NUL at every position, garbage after the NUL
    let decode_field = |f: &[u8]| -> Option<Option<String>> { std::panic::catch_unwind(|| MeleeString::try_from(f).ok().map(|m| m.0)).ok() };
    let mut fields: Vec<Vec<u8>> = vec![];
    for b0 in 0..=255u8 { fields.push(vec![b0]); fields.push(vec![b'A', b0, 0, b0, b0]); }
    for bom in [&[0xffu8, 0xfe][..], &[0xfe, 0xff], &[0xef, 0xbb, 0xbf]] { for tail in [&b""[..], b"A0", b"AB\0x", &[0x41, 0x30, 0x42, 0x30]] { let mut f = bom.to_vec(); f.extend_from_slice(tail); fields.push(f); } }
    let pairs = if ctx.thorough { 65536 } else { 1500 };
    for i in 0..pairs { let (a, b) = if ctx.thorough { ((i >> 8) as u8, i as u8) } else { ((rng.next() >> 8) as u8 | 0x80, (rng.next() >> 8) as u8) }; fields.push(vec![a, b]); }
    for pos in 0..16 { let mut f = vec![b'x'; 16]; f[pos] = 0; for j in pos + 1..16 { f[j] = (rng.next() >> 8) as u8; } fields.push(f); }
    let mut agg_bad = 0usize; let mut first_bad = None; let mut accepted = 0usize;
    for f in &fields {
        let got = decode_field(f); let slice = until_nul(f); let exp = sjis(slice);
        match got { None => { agg_bad += 1; first_bad.get_or_insert(format!("panic on field {}", hex(f))); } Some(g) => { if g.is_some() { accepted += 1; } if g != exp { agg_bad += 1; first_bad.get_or_insert(format!("field {} decoded as {:?}, Shift-JIS of the bytes before the first NUL is {:?}", hex(f), g, exp)); }
            if let Some(s) = &g { if s.contains('\u{fffd}') && !exp.as_deref().map_or(false, |e| e.contains('\u{fffd}')) { agg_bad += 1; first_bad.get_or_insert(format!("replacement character produced for {}", hex(f))); } } } }
    }
    let mut c = Case::new(format!("fieldsweep {}", fields.len()), format!("fields={} accepted={} bad={}", fields.len(), accepted, agg_bad)); c.tags = vec!["fieldsweep".into()];
    if let Some(m) = first_bad { c.fail("C19", m); }
    ctx.push(c);
}

// ------------------------------------------------------------------ .slpp reader: unknown entries, version gate (C18)

fn tar_entries(a: &[u8]) -> Vec<(String, Vec<u8>)> { let mut out = vec![]; for e in tar::Archive::new(Cursor::new(a)).entries().unwrap() { let mut e = e.unwrap(); let name = e.path().unwrap().to_string_lossy().to_string(); let mut c = vec![]; e.read_to_end(&mut c).unwrap(); out.push((name, c)); } out }
/// names `DIR:<path>` make a directory member (what `tar cf x -C dir .` emits first), `RAW:<hex>` puts the bytes into the name field as they are (a name that is not UTF-8)
fn tar_build(es: &[(String, Vec<u8>)]) -> Vec<u8> { let mut b = tar::Builder::new(vec![]); for (n, c) in es { let mut h = tar::Header::new_gnu();
        if let Some(d) = n.strip_prefix("DIR:") { h.set_entry_type(tar::EntryType::Directory); h.set_size(0); h.set_path(d).unwrap(); h.set_mode(0o755); h.set_cksum(); b.append(&h, &[][..]).unwrap(); continue; }
        // what `tar --format=posix` / bsdtar / Python's tarfile put in front of a member: a pax extended header (typeflag `x`, named PaxHeaders/<member>)
        // whose records (times here) belong to the member that follows; `GPAX:` is the global variant (typeflag `g`)
        if let Some(m) = n.strip_prefix("PAX:") { let body = b"30 mtime=1700000000.123456789\n"; h.set_entry_type(tar::EntryType::XHeader); h.set_size(body.len() as u64); h.set_path(format!("PaxHeaders/{}", m)).unwrap(); h.set_mode(0o644); h.set_cksum(); b.append(&h, &body[..]).unwrap(); continue; }
        if n.starts_with("GPAX:") { let body = b"52 comment=0123456789abcdef0123456789abcdef01234567\n"; h.set_entry_type(tar::EntryType::XGlobalHeader); h.set_size(body.len() as u64); h.set_path("pax_global_header").unwrap(); h.set_mode(0o644); h.set_cksum(); b.append(&h, &body[..]).unwrap(); continue; }
        h.set_size(c.len() as u64);
        if let Some(x) = n.strip_prefix("RAW:") { let raw: Vec<u8> = (0..x.len() / 2).map(|i| u8::from_str_radix(&x[2 * i..2 * i + 2], 16).unwrap()).collect(); let name = &mut h.as_old_mut().name; for (i, v) in raw.iter().enumerate().take(99) { name[i] = *v; } } else { h.set_path(n).unwrap(); }
        h.set_mode(0o644); h.set_cksum(); b.append(&h, &c[..]).unwrap(); } b.into_inner().unwrap() }

/// C18 at byte level: the written archive walked by hand (not with the `tar` crate) — 512-byte blocks, header name / octal size /
/// checksum, zero padding, two zero blocks at the end — and handed to the byte-level tar model (`tarchk`), which must list it and
/// rebuild it byte for byte.  Entry lengths are steered onto multiples of 512 through the metadata.
fn tarfmt(rng: &mut Rng, ctx: &mut Ctx) {
    let go = GenOpts { max_frames: 3, newer: false, force: None };
    for k in 0..ctx.n {
        let (mut r, tags) = loop { let kk = k + (rng.next() % 3) as usize * 1000; let (r, t) = gen_replay(rng, kk, &go); if !slots_of(&r.start_block).is_empty() && r.v <= MAXV { break (r, t); } };
        // a Gecko block is a Gecko block whatever the version says (the reader accepts the events at any version): the blob must be stored
        if r.gecko.is_none() && k % 5 == 2 { let nb = 1 + (k / 5) % 2; r.gecko = Some((rng.bytes(512 * nb), (nb as u32 - 1) * 512 + [1u32, 200, 512][(k / 10) % 3])); }
        let target = [512usize, 1024, 511, 513, 1536, 0][k % 6];
        if target > 0 {
            // metadata {"k0":"xxx..","k1":..}: JSON length = 2 + sum(len(key)+len(val)+6) - 1; pick string lengths to hit the target
            let mut best = None;
            for nkeys in 1..=8usize { let fixed = 1 + nkeys * 8; if target < fixed + nkeys - 1 { continue; } let body = target - fixed; if body > nkeys * 255 { continue; } best = Some((nkeys, body)); break; }
            if let Some((nkeys, body)) = best { let mut m = vec![]; let mut left = body; for i in 0..nkeys { let l = left.min(255).min(if i + 1 == nkeys { left } else { left.saturating_sub(nkeys - 1 - i).min(255) }); left -= l; m.extend(b"U\x02"); m.extend(format!("k{}", i).as_bytes()); m.extend(b"SU"); m.push(l as u8); m.extend(std::iter::repeat(b'x').take(l)); } r.metadata = Some(m); }
        }
        let b = encode(&r);
        let a = match std::panic::catch_unwind(|| to_slpp(&b, [None, Some(arrow2::io::ipc::write::Compression::LZ4)][k % 2], k % 3 == 0)) { Ok(Ok(a)) => a, _ => continue };
        if a.len() > 300_000 { continue; }
        let mut c = Case::new(format!("tarchk {}", hex(&a)), String::new()); c.tags = tags;
        // hand walk
        let mut names: Vec<String> = vec![]; let mut pos = 0usize; let mut problem: Option<String> = None; let mut md_len = 0usize;
        if a.len() % 512 != 0 { problem = Some(format!("archive length {} is not a multiple of 512", a.len())); }
        while problem.is_none() && pos + 512 <= a.len() {
            let h = &a[pos..pos + 512];
            if h.iter().all(|x| *x == 0) { break; }
            let name: Vec<u8> = h[..100].iter().cloned().take_while(|x| *x != 0).collect();
            let size = h[124..135].iter().fold(Some(0usize), |acc, d| acc.and_then(|v| if (b'0'..=b'7').contains(d) { Some(v * 8 + (*d - b'0') as usize) } else { None }));
            let ck = h[148..155].iter().fold(Some(0usize), |acc, d| acc.and_then(|v| if (b'0'..=b'7').contains(d) { Some(v * 8 + (*d - b'0') as usize) } else { None }));
            let sum: usize = h.iter().enumerate().map(|(i, x)| if (148..156).contains(&i) { 32 } else { *x as usize }).sum();
            match (size, ck) { (Some(sz), Some(ck)) => { if ck != sum { problem = Some(format!("header checksum of entry {} is {} but the bytes sum to {}", names.len(), ck, sum)); }
                    let n = String::from_utf8_lossy(&name).to_string(); if n == "metadata.json" { md_len = sz; } names.push(n);
                    let padded = (sz + 511) / 512 * 512; if pos + 512 + padded > a.len() { problem = Some("entry runs past the end of the archive".into()); break; }
                    if a[pos + 512 + sz..pos + 512 + padded].iter().any(|x| *x != 0) { problem = Some("entry padding is not zero".into()); }
                    pos += 512 + padded; }
                _ => { problem = Some(format!("entry {}: size or checksum field is not octal", names.len())); } }
        }
        if problem.is_none() { if a.len() < pos + 1024 || a[pos..].iter().any(|x| *x != 0) { problem = Some("the entries are not followed by zero blocks only (at least two)".into()); } else if a.len() != pos + 1024 { problem = Some(format!("{} bytes after the last entry, expected the two-block end-of-archive marker", a.len() - pos)); } }
        let mut exp: Vec<&str> = vec!["peppi.json", "metadata.json", "start.json", "start.raw"]; if r.end.is_some() { exp.push("end.json"); exp.push("end.raw"); } if r.gecko.is_some() { exp.push("gecko_codes.raw"); } if !r.frames.is_empty() { exp.push("frames.arrow"); }
        if problem.is_none() && names != exp { problem = Some(format!("entries {:?} != {:?}", names, exp)); }
        if &a[..10.min(a.len())] != b"peppi.json" { problem = Some("file signature `peppi.json` is not at offset 0".into()); }
        if let Some(p) = &problem { c.fail("C18", format!("written .slpp is not the documented tar layout: {}", p)); }
        c.impl_out = format!("ok same n={} first=peppi.json sig=true", exp.len());
        c.tags.push(format!("mdjson%512={}", if md_len % 512 == 0 { "0" } else { "n" })); c.tags.push(format!("entries{}", exp.len()));
        ctx.push(c);
        // peppi.json as text: serde_json's rendering of `Peppi { version, slp_hash, quirks }` against the text model, both directions
        { use peppi::io::peppi::{Peppi, Version as PV, MIN_VERSION}; let vals = [0u8, 1, 2, 3, 9, 10, 99, 100, 255];
            let (va, vb, vc) = if k % 3 == 0 { (2, 0, 0) } else { (vals[(rng.next() % 9) as usize], vals[(rng.next() % 9) as usize], vals[(rng.next() % 9) as usize]) };
            let hs: Option<String> = match k % 4 { 0 => None, 1 => Some(format!("xxh3:{:016x}", rng.next())), 2 => Some(String::new()),
                _ => Some((0..(rng.next() % 12)).map(|_| ['"', '\\', '/', 'a', '\u{8}', '\u{c}', '\n', '\r', '\t', '\u{1}', '\u{1f}', '\u{7f}', 'é', '日', '😀', ' ', ':', '}'][(rng.next() % 18) as usize]).collect()) };
            let q = [None, Some(false), Some(true)][(k / 4) % 3];
            let p = Peppi { version: PV(va, vb, vc), slp_hash: hs.clone(), quirks: q.map(|b| peppi::game::Quirks { double_game_end: b }) };
            let text = serde_json::to_vec(&p).unwrap();
            let mut c = Case::new(format!("peppiw {} {} {} {} {}", va, vb, vc, match &hs { None => "-".to_string(), Some(h) => format!("x{}", hex(h.as_bytes())) }, match q { None => "-", Some(false) => "0", Some(true) => "1" }), format!("ok {}", hex(&text)));
            c.tags = vec!["peppi.json:write".into()]; ctx.push(c);
            let cut = if k % 5 == 4 { (rng.next() as usize) % text.len() } else { text.len() };
            let t = &text[..cut];
            let line = match serde_json::from_slice::<Peppi>(t) { Err(e) => format!("err {}", e), Ok(p2) => format!("ok vok={} hash={} quirks={}", p2.version >= MIN_VERSION, match &p2.slp_hash { None => "-".to_string(), Some(h) => hex(h.as_bytes()) }, match p2.quirks { None => "-", Some(q) => if q.double_game_end { "1" } else { "0" } }) };
            let mut c = Case::new(format!("peppir {}", hex(t)), line); c.tags = vec![format!("peppi.json:read:{}", if cut == text.len() { "whole" } else { "cut" })]; ctx.push(c);
        }
        // the lazy iterator on prefixes: the `tar` crate member by member against `tarScan` (what each cut of the archive makes the reader see)
        if a.len() <= 40_000 {
            let mut bounds: Vec<usize> = vec![0]; { let mut pos = 0usize; while pos + 512 <= a.len() { let h = &a[pos..pos + 512]; if h.iter().all(|x| *x == 0) { break; }
                let sz = h[124..135].iter().fold(0usize, |v, d| v * 8 + (d.wrapping_sub(b'0')) as usize % 8); bounds.push(pos + 512); bounds.push(pos + 512 + sz); pos += 512 + (sz + 511) / 512 * 512; bounds.push(pos); } bounds.push(pos + 512); bounds.push(a.len()); }
            let mut cuts: Vec<usize> = vec![];
            for i in 0..(if ctx.thorough { 14 } else { 5 }) { let b = bounds[(rng.next() as usize) % bounds.len()]; let d = [0i64, 1, -1, 0, 7, -200][(i + k) % 6]; let n = (b as i64 + d).clamp(0, a.len() as i64) as usize; cuts.push(n); }
            cuts.push((rng.next() as usize) % (a.len() + 1));
            for n in cuts { let pre = &a[..n];
                let mut out: Vec<String> = vec![]; let mut broken = false;
                let mut ar = tar::Archive::new(Cursor::new(pre));
                match ar.entries() { Err(_) => { broken = true; out.push("B".into()); } Ok(it) => { for e in it { match e { Err(_) => { broken = true; out.push("B".into()); break; }
                    Ok(mut e) => { let name = e.path_bytes().to_vec(); let mut body = vec![]; match e.read_to_end(&mut body) { Ok(_) => {} Err(_) => { out.push("READERR".into()); } }
                        let sum = body.iter().fold(7u64, |acc, x| (acc * 31 + *x as u64) % 4294967296); out.push(format!("E:{}:{}:{}", String::from_utf8_lossy(&name), body.len(), sum)); } } } } }
                if !broken { let mut inner = ar.into_inner(); let mut block = [0xffu8; 512]; let t = inner.read_exact(&mut block).is_ok() && block.iter().all(|x| *x == 0); out.push(format!("t={}", t as u8)); }
                let mut c = Case::new(format!("tarscan {}", hex(pre)), out.join(" ")); c.tags = vec![format!("tarscan:{}", if n == a.len() { "full" } else if bounds.contains(&n) { "boundary" } else { "inside" })];
                ctx.push(c); }
        }
    }
}

fn pread(rng: &mut Rng, ctx: &mut Ctx) {
    let go = GenOpts { max_frames: 4, newer: false, force: None };
    for k in 0..ctx.n {
        let (r, tags) = loop { let kk = k + (rng.next() % 3) as usize * 1000; let (r, t) = gen_replay(rng, kk, &go); if !slots_of(&r.start_block).is_empty() { break (r, t); } };
        let b = encode(&r);
        let a = match std::panic::catch_unwind(|| to_slpp(&b, None, k % 2 == 0)) { Ok(Ok(a)) => a, _ => continue };
        let full = match peppi::io::peppi::read(Cursor::new(&a), None) { Ok(g) => game_sig(&g), Err(_) => continue };
        let es = tar_entries(&a);
        let mut c = Case::new(format!("pread {} {}", k, es.len()), String::new()); c.tags = tags;
        if k % 2 == 0 {
            // extra unknown entries anywhere before frames.arrow (never before peppi.json: the signature must stay first)
            let mut es2 = es.clone(); let lim = es2.iter().position(|e| e.0 == "frames.arrow").unwrap_or(es2.len());
            for _ in 0..1 + rng.next() % 3 { let i = 1 + (rng.next() as usize) % lim.max(1).min(es2.len()); let i = i.min(es2.iter().position(|e| e.0 == "frames.arrow").unwrap_or(es2.len())); es2.insert(i, (["notes.txt", "extra.json", "thumb.png", "start.raw.bak", "frames.arrow.old", "DIR:./", "DIR:extras/", "extras/thumbnail.png", "RAW:72e973756de92e747874", "RAW:ff", "a/b/c/start.raw.d/x"][(rng.next() % 11) as usize].to_string(), rng.nbytes(700))); }
            // a big foreign member (a thumbnail, a video clip) once per run: sizes around 1 MiB
            if k == 2 { let big = [(1usize << 20) + 1, 3 << 20, 1 << 20][(ctx.seed as usize) % 3]; es2.insert(1, ("preview.bin".to_string(), vec![0x5au8; big])); }
            // an archive re-packed by a tool that writes the pax format: an extended header in front of one member, or of every member after the first
            // (and a global header); they describe the member that follows and are no members of their own
            match (k / 2) % 3 { 1 => { let j = 1 + (rng.next() as usize) % (es2.len() - 1).max(1); let j = j.min(es2.len() - 1); let nm = es2[j].0.clone(); if !nm.contains(':') { es2.insert(j, (format!("PAX:{}", nm), vec![])); c.tags.push("pax-one".into()); } }
                2 => { let mut out = vec![es2[0].clone(), ("GPAX:".to_string(), vec![])]; for e in es2[1..].iter() { if !e.0.contains(':') { out.push((format!("PAX:{}", e.0), vec![])); } out.push(e.clone()); } es2 = out; c.tags.push("pax-all".into()); }
                _ => {} }
            let a2 = tar_build(&es2);
            let res = std::panic::catch_unwind(|| peppi::io::peppi::read(Cursor::new(&a2), None).map(|g| game_sig(&g)).map_err(|e| e.to_string()));
            match res { Ok(Ok(s)) => { c.impl_out = "ok same".into(); if s != full { c.impl_out = "ok different".into(); c.fail("C18", "unknown archive entries change the game that is read"); } } Ok(Err(e)) => { c.impl_out = format!("err {}", e); c.fail("C18", format!("archive with unknown entries rejected: {}", e)); } Err(_) => { c.impl_out = "panic".into(); c.fail("C18", "reader panicked on unknown archive entries"); } }
            c.tags.push("unknown-entries".into());
            // members a tool appended behind frames.arrow (tar -r): the reader is done at frames.arrow, with or without skip-frames — the game is the one
            // in front of it either way
            if (k / 2) % 2 == 1 && es.iter().any(|e| e.0 == "frames.arrow") { let mut es3 = es.clone();
                es3.push(("metadata.json".to_string(), br#"{"startAt":"1999-12-31T23:59:59Z","playedOn":"appended"}"#.to_vec()));
                if (k / 4) % 2 == 0 { if let Some(e) = es.iter().find(|e| e.0 == "end.raw") { let mut e2 = e.1.clone(); e2[0] = if e2[0] == 7 { 2 } else { 7 }; es3.push(("end.raw".to_string(), e2)); } }
                let a3 = tar_build(&es3);
                for skip in [true, false] { let o = peppi::io::peppi::de::Opts { skip_frames: skip };
                    let want = peppi::io::peppi::read(Cursor::new(&a), Some(&o)).map(|g| game_sig(&g)).map_err(|e| e.to_string());
                    let got = std::panic::catch_unwind(|| peppi::io::peppi::read(Cursor::new(&a3), Some(&o)).map(|g| game_sig(&g)).map_err(|e| e.to_string()));
                    match got { Err(_) => c.fail("C18", "panic on an archive with members behind frames.arrow"), Ok(got) => if got != want { let m = format!("members appended behind frames.arrow change what is read (skip_frames={}): {:?} vs {:?}", skip, got.as_ref().map(|s| &s[..s.len().min(80)]), want.as_ref().map(|s| &s[..s.len().min(80)])); c.fail("C18", m.clone()); if skip { c.fail("C10", m); } } } }
                c.tags.push("appended-behind-frames".into()); }
        } else {
            // format version gate
            let v = match rng.next() % 6 { 0 => (1u8, 255u8, 255u8), 1 => (2, 0, 0), 2 => (0, 0, 0), 3 => (2, 0, 1), 4 => ((rng.next() % 4) as u8, (rng.next() >> 8) as u8, (rng.next() >> 8) as u8), _ => ((rng.next() >> 8) as u8, (rng.next() >> 8) as u8, (rng.next() >> 8) as u8) };
            let mut es2 = es.clone();
            let mut pj: serde_json::Value = serde_json::from_slice(&es2[0].1).unwrap();
            pj["version"] = serde_json::json!([v.0, v.1, v.2]);
            es2[0].1 = serde_json::to_vec(&pj).unwrap();
            let variant = (k / 2) % 4; // 0: as written; 1: no frames.arrow entry; 2: skip_frames; 3: both
            if variant & 1 == 1 { es2.retain(|e| e.0 != "frames.arrow"); }
            let a2 = tar_build(&es2);
            let o = peppi::io::peppi::de::Opts { skip_frames: variant & 2 == 2 };
            let res = std::panic::catch_unwind(|| peppi::io::peppi::read(Cursor::new(&a2), Some(&o)).map(|_| ()).map_err(|e| e.to_string()));
            let exp_reject = v < (2, 0, 0);
            match res { Ok(Ok(())) => { c.impl_out = "ok".into(); if exp_reject { c.fail("C18", format!("archive of format version {:?} < 2.0.0 accepted", v)); } } Ok(Err(e)) => { c.impl_out = "err".into(); if !exp_reject { c.fail("C18", format!("archive of format version {:?} >= 2.0.0 rejected: {}", v, e)); } } Err(_) => { c.impl_out = "panic".into(); c.fail("C18", "reader panicked on a format version"); } }
            c.line = format!("pvgate {} {} {}", v.0, v.1, v.2); c.tags.push(format!("gate-reject{}", exp_reject as u8)); c.tags.push(format!("gate-variant{}", variant));
        }
        ctx.push(c);
    }
}

// ------------------------------------------------------------------ constants and fixtures

fn consts(ctx: &mut Ctx) {
    let m = slippi::MAX_SUPPORTED_VERSION;
    let mut c = Case::new("consts".into(), format!("max={}.{}.{} first_index={} min_peppi={}.{}.{} cur_peppi={}.{}.{} sig={}", m.0, m.1, m.2, peppi::frame::FIRST_INDEX,
        peppi::io::peppi::MIN_VERSION.0, peppi::io::peppi::MIN_VERSION.1, peppi::io::peppi::MIN_VERSION.2, peppi::io::peppi::CURRENT_VERSION.0, peppi::io::peppi::CURRENT_VERSION.1, peppi::io::peppi::CURRENT_VERSION.2, hex(&peppi::io::peppi::FILE_SIGNATURE)));
    if (m.0, m.1, m.2) != MAXV { c.fail("C09", format!("MAX_SUPPORTED_VERSION is {:?}, the properties are stated for 3.16.0", m)); }
    ctx.push(c);
}

/// the repository's own fixtures: model and implementation must agree on them, and the round-trip oracles must hold
fn fixtures(ctx: &mut Ctx) {
    let dir = std::env::var("PV_FIXTURES").unwrap_or("/repo/tests/data".into());
    let mut names: Vec<_> = std::fs::read_dir(&dir).map(|d| d.filter_map(|e| e.ok()).map(|e| e.path()).filter(|p| p.extension().map_or(false, |x| x == "slp")).collect()).unwrap_or_else(|_| vec![]);
    names.sort();
    for p in names {
        let b = match std::fs::read(&p) { Ok(b) => b, Err(_) => continue };
        if b.len() > 1_200_000 && !ctx.thorough { continue; }
        let name = p.file_name().unwrap().to_string_lossy().to_string();
        let (l, g) = read_line(&b, false, true);
        // files above 200 kB go through the implementation-level oracles only: the model keeps columns as lists and is quadratic in the frame count
        let big = b.len() > 200_000;
        let mut c = Case::new(if big { format!("readx {} {}", name, b.len()) } else { read_cmd(false, true, &b) }, if big { l.chars().take(400).collect() } else { l.clone() }); c.tags = vec![format!("fixture:{}", name)];
        if let Some(g) = &g { check_row_view(g, &mut c); let xx = format!("xxh3:{:016x}", xxhash_rust::xxh3::xxh3_64(&b)); if g.hash.as_deref() != Some(xx.as_str()) { c.fail("C11", format!("{}: hash {:?} != {}", name, g.hash, xx)); } }
        ctx.push(c);
        if let Some(g) = &g { if g.start.slippi.version <= slippi::MAX_SUPPORTED_VERSION { let mut c = Case::new(if big { format!("rtx {} {}", name, b.len()) } else { format!("rt {}", hex(&b)) }, String::new()); c.tags = vec![format!("fixture-rt:{}", name)];
            match write_slp(g) { Ok(y) => { c.impl_out = if big { format!("ok len={} same={}", y.len(), y == b) } else { format!("ok {}", hex(&y)) }; check_c17(g, &y, &mut c); if y != b && name != "unknown_event.slp" && name != "corrupt.slp" { c.fail("C01", format!("{}: write(read(x)) differs from x", name)); } } Err(e) => { c.impl_out = e.clone(); c.fail("C17", format!("{}: accepted game cannot be written: {}", name, e)); } }
            ctx.push(c); } }
    }
}

// ------------------------------------------------------------------ .slpp reader against its model over the abstract archive

/// what the Arrow IPC stream reader yields on the content of a `frames.arrow` entry (after the 8-byte magic)
fn arrow_states(c: &[u8]) -> String {
    use arrow2::io::ipc::read::{read_stream_metadata, StreamReader, StreamState};
    if c.len() < 8 { return "f".into(); }
    let res = std::panic::catch_unwind(|| {
        let mut rd = Cursor::new(&c[8..]);
        let md = match read_stream_metadata(&mut rd) { Ok(m) => m, Err(_) => return vec!["f".to_string()] };
        let mut out = vec![];
        for r in StreamReader::new(rd, md, None) { match r { Ok(StreamState::Some(ch)) => out.push(format!("c{}", ch.len())), Ok(StreamState::Waiting) => { out.push("w".into()); break; } Err(_) => { out.push("f".into()); break; } } if out.len() > 4 { break; } }
        out
    });
    match res { Ok(v) => v.join(","), Err(_) => "p".into() }
}

fn pmodel(rng: &mut Rng, ctx: &mut Ctx) {
    let go = GenOpts { max_frames: 4, newer: false, force: None };
    for k in 0..ctx.n {
        let (r, tags) = loop { let kk = k + (rng.next() % 3) as usize * 1000; let (r, t) = gen_replay(rng, kk, &go); if !slots_of(&r.start_block).is_empty() { break (r, t); } };
        let b = encode(&r);
        let a = match std::panic::catch_unwind(|| to_slpp(&b, [None, Some(arrow2::io::ipc::write::Compression::LZ4)][k % 2], k % 3 == 0)) { Ok(Ok(a)) => a, _ => continue };
        let mut es = tar_entries(&a);
        // mutate the entry list
        let mut what = vec![];
        for _ in 0..(rng.next() % 3) {
            let n = es.len(); if n == 0 { break; }
            let i = (rng.next() as usize) % n;
            match rng.next() % 12 {
                0 => { es.remove(i); what.push("drop"); }
                1 => { let e = es[i].clone(); es.insert((rng.next() as usize) % (n + 1), e); what.push("dup"); }
                2 => { let j = (rng.next() as usize) % n; es.swap(i, j); what.push("swap"); }
                3 => { es.insert((rng.next() as usize) % (n + 1), (["notes.txt", "x/peppi.json.bak", "frames.arrow.old"][(rng.next() % 3) as usize].to_string(), rng.nbytes(300))); what.push("other"); }
                4 => { if let Some(e) = es.iter_mut().find(|e| e.0 == "peppi.json") { let v = [(2u8,0u8,0u8),(1,9,9),(2,0,1),(3,0,0),(0,0,0),(1,255,255)][(rng.next() % 6) as usize]; if let Ok(serde_json::Value::Object(mut pj)) = serde_json::from_slice::<serde_json::Value>(&e.1) { pj.insert("version".into(), serde_json::json!([v.0, v.1, v.2])); e.1 = serde_json::to_vec(&pj).unwrap(); what.push("version"); } } }
                5 => { if let Some(e) = es.iter_mut().find(|e| e.0 == "peppi.json") { e.1 = [&b"{"[..], &b"{\"version\":\"2.0.0\"}"[..], &b"[]"[..], &b"{\"version\":[2,0,0],\"quirks\":{\"double_game_end\":true}}"[..]][(rng.next() % 4) as usize].to_vec(); what.push("peppijson"); } }
                6 => { if let Some(e) = es.iter_mut().find(|e| e.0 == "metadata.json") { e.1 = [&b"null"[..], &b"{}"[..], &b"[1]"[..], &b"{\"a\":"[..], &b"3"[..]][(rng.next() % 5) as usize].to_vec(); what.push("metadata"); } }
                7 => { if let Some(e) = es.iter_mut().find(|e| e.0 == "gecko_codes.raw") { let l = [0usize, 1, 3, 4, 5][(rng.next() % 5) as usize]; e.1.truncate(l); what.push("gecko-short"); } else { es.push(("gecko_codes.raw".into(), rng.nbytes(7))); what.push("gecko-add"); } }
                8 => { if let Some(e) = es.iter_mut().find(|e| e.0 == "frames.arrow" && e.1.len() > 16) { match rng.next() % 4 { 0 => { e.1[0] ^= 1; } 1 => { let l = e.1.len(); e.1.truncate((rng.next() as usize) % l); } 2 => { e.1.truncate(8); } _ => { let l = e.1.len(); let cut = l - 1 - (rng.next() as usize) % 600.min(l - 1); e.1.truncate(cut); } } what.push("frames"); } }
                9 => { if let Some(e) = es.iter_mut().find(|e| e.0 == "start.raw") { let l = e.1.len().max(1); e.1.truncate((rng.next() as usize) % l); what.push("start-short"); } }
                10 => { if let Some(e) = es.iter_mut().find(|e| e.0 == "end.raw") { e.1 = rng.nbytes(8); what.push("end-odd"); } }
                _ => {}
            }
        }
        let skip = k % 4 == 3;
        let trailer = k % 5 != 4;
        let mut a2 = tar_build(&es);
        if !trailer { // drop the end-of-archive marker (and the record padding) entirely, or keep only its first block
            let data_end: usize = es.iter().map(|e| 512 + (e.1.len() + 511) / 512 * 512).sum();
            a2.truncate(data_end + if k % 2 == 0 { 0 } else { 512 });
        }
        // the abstract archive: each entry passed through the external decoder the reader hands it to
        let toks: Vec<String> = es.iter().map(|(name, c)| match name.as_str() {
            "peppi.json" => match serde_json::from_slice::<peppi::io::peppi::Peppi>(c) { Ok(p) => format!("pj:ok:{}:{}:{}", (p.version >= peppi::io::peppi::Version(2, 0, 0)) as u8, p.slp_hash.clone().unwrap_or("-".into()), p.quirks.map_or("-".to_string(), |q| (q.double_game_end as u8).to_string())), Err(_) => "pj:err".into() },
            "metadata.json" => match serde_json::from_slice::<serde_json::Value>(c) { Ok(serde_json::Value::Object(_)) => "md:obj".into(), Ok(serde_json::Value::Null) => "md:null".into(), _ => "md:bad".into() },
            "start.raw" => format!("sr:{}", hex(c)), "end.raw" => format!("er:{}", hex(c)), "gecko_codes.raw" => format!("gk:{}", hex(c)),
            "frames.arrow" => format!("fa:{}:{}", (c.len() >= 8 && &c[..8] == b"ARROW1\0\0") as u8, arrow_states(c)),
            _ => "ot".into() }).collect();
        let o = peppi::io::peppi::de::Opts { skip_frames: skip };
        let res = with_watchdog(20, move || std::panic::catch_unwind(|| peppi::io::peppi::read(Cursor::new(&a2), Some(&o)).map(|g| format!("ok v={}.{}.{} end?={} meta={} gecko={} frames={} hash={} quirks={}",
            g.start.slippi.version.0, g.start.slippi.version.1, g.start.slippi.version.2, g.end.is_some(), if g.metadata.is_some() { "some" } else { "none" },
            g.gecko_codes.as_ref().map_or("none".to_string(), |c| format!("({},{})", c.actual_size, c.bytes.len())), g.frames.id.len(), g.hash.clone().unwrap_or("none".into()), g.quirks.map_or("none".to_string(), |q| q.double_game_end.to_string()))).map_err(|e| e.to_string())));
        // an Arrow stream on which arrow2's own stream reader panics (probe state `p`: e.g. a frames.arrow entry whose content ends inside
        // a compressed buffer) is outside what the model assumes of the external decoder: such an archive is not a prefix of a written
        // one, no property speaks about it, and the case is recorded without being compared
        let arrow_panics = toks.iter().any(|t| t.starts_with("fa:") && t.ends_with('p'));
        let mut c = Case::new(if arrow_panics { format!("skipcase arrow2-panics {}", what.join("+")) } else { format!("pread {} {} {}", skip as u8, trailer as u8, toks.join(";")) }, String::new());
        // C07 speaks about truncated files: a panic counts against it when the archive is a prefix of a written one (only the end-of-archive
        // marker dropped); on other modifications it is a model/implementation disagreement (the model says `err`)
        match res { None => { c.impl_out = "hang".into(); c.fail("C07", ".slpp reader did not return within 20 s"); } Some(Err(_)) => { c.impl_out = "panic".into(); if what.is_empty() { c.fail("C07", ".slpp reader panicked on a written archive without its end-of-archive marker"); } }
            Some(Ok(Err(e))) => c.impl_out = format!("err {}", e), Some(Ok(Ok(s))) => c.impl_out = s }
        c.tags = tags; for w in &what { c.tags.push(format!("mut:{}", w)); } c.tags.push(format!("trailer{}", trailer as u8)); c.tags.push(format!("pskip{}", skip as u8));
        ctx.push(c);
    }
}
