//! Independent layout tables, written from the Slippi spec (DESIGN.md Appendix A) — NOT derived
//! from peppi's sources or from gen/resources/frames.json.  Offsets are relative to the first
//! payload byte of the event (the byte after the command byte).
use crate::gen::{gte, V};

#[derive(Clone, Copy, PartialEq, Debug)]
pub enum Ty { U8, I8, U16, U32, I32, F32 }
impl Ty { pub fn width(self) -> usize { match self { Ty::U8 | Ty::I8 => 1, Ty::U16 => 2, _ => 4 } } }
pub struct F { pub name: &'static str, pub ty: Ty, pub off: usize, pub since: (u8, u8) }
const fn f(name: &'static str, ty: Ty, off: usize, a: u8, b: u8) -> F { F { name, ty, off, since: (a, b) } }
use Ty::*;

pub const PRE: &[F] = &[
    f("random_seed", U32, 6, 0, 0), f("state", U16, 10, 0, 0), f("position.x", F32, 12, 0, 0), f("position.y", F32, 16, 0, 0),
    f("direction", F32, 20, 0, 0), f("joystick.x", F32, 24, 0, 0), f("joystick.y", F32, 28, 0, 0), f("cstick.x", F32, 32, 0, 0),
    f("cstick.y", F32, 36, 0, 0), f("triggers", F32, 40, 0, 0), f("buttons", U32, 44, 0, 0), f("buttons_physical", U16, 48, 0, 0),
    f("triggers_physical.l", F32, 50, 0, 0), f("triggers_physical.r", F32, 54, 0, 0), f("raw_analog_x", I8, 58, 1, 2),
    f("percent", F32, 59, 1, 4), f("raw_analog_y", I8, 63, 3, 15),
];
pub const POST: &[F] = &[
    f("character", U8, 6, 0, 0), f("state", U16, 7, 0, 0), f("position.x", F32, 9, 0, 0), f("position.y", F32, 13, 0, 0),
    f("direction", F32, 17, 0, 0), f("percent", F32, 21, 0, 0), f("shield", F32, 25, 0, 0), f("last_attack_landed", U8, 29, 0, 0),
    f("combo_count", U8, 30, 0, 0), f("last_hit_by", U8, 31, 0, 0), f("stocks", U8, 32, 0, 0), f("state_age", F32, 33, 0, 2),
    f("state_flags.0", U8, 37, 2, 0), f("state_flags.1", U8, 38, 2, 0), f("state_flags.2", U8, 39, 2, 0), f("state_flags.3", U8, 40, 2, 0),
    f("state_flags.4", U8, 41, 2, 0), f("misc_as", F32, 42, 2, 0), f("airborne", U8, 46, 2, 0), f("ground", U16, 47, 2, 0),
    f("jumps", U8, 49, 2, 0), f("l_cancel", U8, 50, 2, 0), f("hurtbox_state", U8, 51, 2, 1),
    f("velocities.self_x_air", F32, 52, 3, 5), f("velocities.self_y", F32, 56, 3, 5), f("velocities.knockback_x", F32, 60, 3, 5),
    f("velocities.knockback_y", F32, 64, 3, 5), f("velocities.self_x_ground", F32, 68, 3, 5), f("hitlag", F32, 72, 3, 8),
    f("animation_index", U32, 76, 3, 11), f("last_hit_by_instance", U16, 80, 3, 16), f("instance_id", U16, 82, 3, 16),
];
pub const START: &[F] = &[f("random_seed", U32, 4, 0, 0), f("scene_frame_counter", U32, 8, 3, 10)];
pub const ITEM: &[F] = &[
    f("type", U16, 4, 0, 0), f("state", U8, 6, 0, 0), f("direction", F32, 7, 0, 0), f("velocity.x", F32, 11, 0, 0), f("velocity.y", F32, 15, 0, 0),
    f("position.x", F32, 19, 0, 0), f("position.y", F32, 23, 0, 0), f("damage", U16, 27, 0, 0), f("timer", F32, 29, 0, 0), f("id", U32, 33, 0, 0),
    f("misc.0", U8, 37, 3, 2), f("misc.1", U8, 38, 3, 2), f("misc.2", U8, 39, 3, 2), f("misc.3", U8, 40, 3, 2), f("owner", I8, 41, 3, 6),
    f("instance_id", U16, 42, 3, 16),
];
pub const END: &[F] = &[f("latest_finalized_frame", I32, 4, 3, 7)];

/// Values of the fields the version carries, as unsigned bit patterns, in table order.
pub fn decode(table: &[F], v: V, payload: &[u8]) -> Vec<u64> {
    table.iter().filter(|x| gte(v, x.since.0, x.since.1)).map(|x| {
        payload[x.off..x.off + x.ty.width()].iter().fold(0u64, |a, b| (a << 8) | *b as u64)
    }).collect()
}
/// Payload size the spec prescribes for the version (= end of the last visible field).
pub fn size(table: &[F], hdr: usize, v: V) -> usize {
    table.iter().filter(|x| gte(v, x.since.0, x.since.1)).map(|x| x.off + x.ty.width()).max().unwrap_or(hdr)
}

/// the Arrow schema the per-version field table prescribes, as leaf paths (C14): id; ports.P<n>.leader/follower.pre/post;
/// start (>= 2.2); end (>= 3.7: before that the struct has no field); item list (>= 3.0)
pub fn arrow_leaves(v: V, slots: &[(u8, bool)]) -> Vec<String> {
    let ty = |t: Ty| match t { Ty::U8 => "u8", Ty::I8 => "i8", Ty::U16 => "u16", Ty::U32 => "u32", Ty::I32 => "i32", Ty::F32 => "f32" };
    let mut out = vec!["id:i32".to_string()];
    let mut tab = |prefix: &str, table: &[F], out: &mut Vec<String>| for f in table.iter().filter(|f| gte(v, f.since.0, f.since.1)) { out.push(format!("{}.{}:{}", prefix, f.name, ty(f.ty))); };
    for (port, fol) in slots { let who = if *fol { "follower" } else { "leader" }; tab(&format!("ports.P{}.{}.pre", port + 1, who), PRE, &mut out); tab(&format!("ports.P{}.{}.post", port + 1, who), POST, &mut out); }
    if gte(v, 2, 2) { tab("start", START, &mut out); }
    if gte(v, 3, 0) { tab("end", END, &mut out); tab("item[]", ITEM, &mut out); }
    out
}
