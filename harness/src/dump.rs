// Canonical dump of a parsed game from its public column fields (hand-written, field by field).
use peppi::frame::immutable as im;
use peppi::io::slippi::Version;

pub fn gte(v: Version, a: u8, b: u8) -> bool { v.0 > a || (v.0 == a && v.1 >= b) }
fn f(x: f32) -> u64 { x.to_bits() as u64 }

pub fn pre_row(p: &im::Pre, i: usize) -> Vec<u64> {
    let mut r = vec![p.random_seed.values()[i] as u64, p.state.values()[i] as u64, f(p.position.x.values()[i]), f(p.position.y.values()[i]), f(p.direction.values()[i]),
        f(p.joystick.x.values()[i]), f(p.joystick.y.values()[i]), f(p.cstick.x.values()[i]), f(p.cstick.y.values()[i]), f(p.triggers.values()[i]),
        p.buttons.values()[i] as u64, p.buttons_physical.values()[i] as u64, f(p.triggers_physical.l.values()[i]), f(p.triggers_physical.r.values()[i])];
    if let Some(a) = &p.raw_analog_x { r.push(a.values()[i] as u8 as u64) }
    if let Some(a) = &p.percent { r.push(f(a.values()[i])) }
    if let Some(a) = &p.raw_analog_y { r.push(a.values()[i] as u8 as u64) }
    r
}
pub fn post_row(p: &im::Post, i: usize) -> Vec<u64> {
    let mut r = vec![p.character.values()[i] as u64, p.state.values()[i] as u64, f(p.position.x.values()[i]), f(p.position.y.values()[i]), f(p.direction.values()[i]),
        f(p.percent.values()[i]), f(p.shield.values()[i]), p.last_attack_landed.values()[i] as u64, p.combo_count.values()[i] as u64, p.last_hit_by.values()[i] as u64, p.stocks.values()[i] as u64];
    if let Some(a) = &p.state_age { r.push(f(a.values()[i])) }
    if let Some(s) = &p.state_flags { r.extend([s.0.values()[i] as u64, s.1.values()[i] as u64, s.2.values()[i] as u64, s.3.values()[i] as u64, s.4.values()[i] as u64]) }
    if let Some(a) = &p.misc_as { r.push(f(a.values()[i])) }
    if let Some(a) = &p.airborne { r.push(a.values()[i] as u64) }
    if let Some(a) = &p.ground { r.push(a.values()[i] as u64) }
    if let Some(a) = &p.jumps { r.push(a.values()[i] as u64) }
    if let Some(a) = &p.l_cancel { r.push(a.values()[i] as u64) }
    if let Some(a) = &p.hurtbox_state { r.push(a.values()[i] as u64) }
    if let Some(s) = &p.velocities { r.extend([f(s.self_x_air.values()[i]), f(s.self_y.values()[i]), f(s.knockback_x.values()[i]), f(s.knockback_y.values()[i]), f(s.self_x_ground.values()[i])]) }
    if let Some(a) = &p.hitlag { r.push(f(a.values()[i])) }
    if let Some(a) = &p.animation_index { r.push(a.values()[i] as u64) }
    if let Some(a) = &p.last_hit_by_instance { r.push(a.values()[i] as u64) }
    if let Some(a) = &p.instance_id { r.push(a.values()[i] as u64) }
    r
}
pub fn start_row(s: &im::Start, i: usize) -> Vec<u64> { let mut r = vec![s.random_seed.values()[i] as u64]; if let Some(a) = &s.scene_frame_counter { r.push(a.values()[i] as u64) } r }
pub fn end_row(e: &im::End, i: usize) -> Vec<u64> { let mut r = vec![]; if let Some(a) = &e.latest_finalized_frame { r.push(a.values()[i] as u32 as u64) } r }
pub fn item_row(t: &im::Item, i: usize) -> Vec<u64> {
    let mut r = vec![t.r#type.values()[i] as u64, t.state.values()[i] as u64, f(t.direction.values()[i]), f(t.velocity.x.values()[i]), f(t.velocity.y.values()[i]),
        f(t.position.x.values()[i]), f(t.position.y.values()[i]), t.damage.values()[i] as u64, f(t.timer.values()[i]), t.id.values()[i] as u64];
    if let Some(m) = &t.misc { r.extend([m.0.values()[i] as u64, m.1.values()[i] as u64, m.2.values()[i] as u64, m.3.values()[i] as u64]) }
    if let Some(a) = &t.owner { r.push(a.values()[i] as u8 as u64) }
    if let Some(a) = &t.instance_id { r.push(a.values()[i] as u64) }
    r
}
fn row_sum(r: Option<&Vec<u64>>) -> u64 { match r { None => 0, Some(vs) => vs.iter().fold(7u64, |a, x| (a * 31 + x) % 1000000007) } }
fn cols_sum(rows: &[Option<Vec<u64>>]) -> u64 { rows.iter().fold(1u64, |a, r| (a * 131 + row_sum(r.as_ref())) % 1000000007) }
fn show_valid(v: &Option<arrow2::bitmap::Bitmap>) -> String { match v { None => "-".into(), Some(b) => b.iter().map(|x| if x { '1' } else { '0' }).collect() } }
fn lean_opt<T: std::fmt::Display>(o: Option<T>) -> String { match o { None => "none".into(), Some(x) => format!("(some {})", x) } }
fn lean_list<T: std::fmt::Display>(l: &[T]) -> String { format!("[{}]", l.iter().map(|x| x.to_string()).collect::<Vec<_>>().join(", ")) }

fn data(d: &im::Data) -> String {
    let n = d.pre.random_seed.len(); let m = d.post.character.len();
    // a row is null iff the generated struct's own validity bit says so (that is what `push_null` records)
    let pv = |i: usize| d.pre.validity.as_ref().map_or(true, |v| i < v.len() && v.get_bit(i));
    let qv = |i: usize| d.post.validity.as_ref().map_or(true, |v| i < v.len() && v.get_bit(i));
    let pre: Vec<_> = (0..n).map(|i| pv(i).then(|| pre_row(&d.pre, i))).collect();
    let post: Vec<_> = (0..m).map(|i| qv(i).then(|| post_row(&d.post, i))).collect();
    format!("{}/{}/{}/{}/{}", n, m, show_valid(&d.validity), cols_sum(&pre), cols_sum(&post))
}

/// the summary line with the hash field blanked (to compare reads made with and without `compute_hash`)
pub fn strip_hash(s: &str) -> String {
    match s.find(" hashed=") { None => s.to_string(), Some(i) => { let rest = &s[i + 8..]; let end = rest.find(' ').map_or(rest.len(), |j| j); format!("{} hashed=none{}", &s[..i], &rest[end..]) } }
}
pub fn summary(g: &peppi::game::immutable::Game) -> String {
    let fr = &g.frames; let v = g.start.slippi.version;
    let ports: Vec<String> = fr.ports.iter().map(|p| format!("P{}:{}{}", p.port as u8, data(&p.leader), p.follower.as_ref().map_or(String::new(), |f| format!("+F:{}", data(f))))).collect();
    let n = fr.id.len();
    let start = fr.start.as_ref().map(|s| (s.random_seed.len(), cols_sum(&(0..s.random_seed.len()).map(|i| Some(start_row(s, i))).collect::<Vec<_>>())));
    let end = fr.end.as_ref().map(|e| { let len = e.latest_finalized_frame.as_ref().map(|c| c.len()).or(e.validity.as_ref().map(|b| b.len())).unwrap_or(n); /* below 3.7 the struct has no member: its rows are counted by the validity bitmap */ (len, cols_sum(&(0..len).map(|i| Some(end_row(e, i))).collect::<Vec<_>>())) });
    let item = fr.item.as_ref().map(|t| (t.r#type.len(), cols_sum(&(0..t.r#type.len()).map(|i| Some(item_row(t, i))).collect::<Vec<_>>())));
    let off = fr.item_offset.as_ref().map(|o| lean_list(&o.iter().map(|x| *x as u64).collect::<Vec<_>>()));
    let _ = v;
    format!("ok v={}.{}.{} ids={} ports={} start={}/{} end={}/{} off={} item={}/{} gecko={} dbl={} end?={} meta?={} hashed={}",
        v.0, v.1, v.2, lean_list(&fr.id.values().iter().map(|x| *x as i64).collect::<Vec<_>>()), lean_list(&ports),
        lean_opt(start.map(|s| s.0)), lean_opt(start.map(|s| s.1)), lean_opt(end.map(|s| s.0)), lean_opt(end.map(|s| s.1)),
        lean_opt(off), lean_opt(item.map(|s| s.0)), lean_opt(item.map(|s| s.1)),
        lean_opt(g.gecko_codes.as_ref().map(|c| format!("({}, {})", c.actual_size, c.bytes.len()))), lean_opt(g.quirks.map(|q| q.double_game_end)),
        g.end.is_some(), g.metadata.is_some(), g.hash.as_deref().unwrap_or("none"))
}

// ---- row view (transpose::*) dumped by hand, same value order as the column dumps above ----
use peppi::frame::transpose as tr;
pub fn tr_pre_row(p: &tr::Pre) -> Vec<u64> {
    let mut r = vec![p.random_seed as u64, p.state as u64, f(p.position.x), f(p.position.y), f(p.direction), f(p.joystick.x), f(p.joystick.y),
        f(p.cstick.x), f(p.cstick.y), f(p.triggers), p.buttons as u64, p.buttons_physical as u64, f(p.triggers_physical.l), f(p.triggers_physical.r)];
    if let Some(a) = p.raw_analog_x { r.push(a as u8 as u64) }
    if let Some(a) = p.percent { r.push(f(a)) }
    if let Some(a) = p.raw_analog_y { r.push(a as u8 as u64) }
    r
}
pub fn tr_post_row(p: &tr::Post) -> Vec<u64> {
    let mut r = vec![p.character as u64, p.state as u64, f(p.position.x), f(p.position.y), f(p.direction), f(p.percent), f(p.shield),
        p.last_attack_landed as u64, p.combo_count as u64, p.last_hit_by as u64, p.stocks as u64];
    if let Some(a) = p.state_age { r.push(f(a)) }
    if let Some(s) = p.state_flags { r.extend([s.0 as u64, s.1 as u64, s.2 as u64, s.3 as u64, s.4 as u64]) }
    if let Some(a) = p.misc_as { r.push(f(a)) }
    if let Some(a) = p.airborne { r.push(a as u64) }
    if let Some(a) = p.ground { r.push(a as u64) }
    if let Some(a) = p.jumps { r.push(a as u64) }
    if let Some(a) = p.l_cancel { r.push(a as u64) }
    if let Some(a) = p.hurtbox_state { r.push(a as u64) }
    if let Some(s) = p.velocities { r.extend([f(s.self_x_air), f(s.self_y), f(s.knockback_x), f(s.knockback_y), f(s.self_x_ground)]) }
    if let Some(a) = p.hitlag { r.push(f(a)) }
    if let Some(a) = p.animation_index { r.push(a as u64) }
    if let Some(a) = p.last_hit_by_instance { r.push(a as u64) }
    if let Some(a) = p.instance_id { r.push(a as u64) }
    r
}
pub fn tr_start_row(s: &tr::Start) -> Vec<u64> { let mut r = vec![s.random_seed as u64]; if let Some(a) = s.scene_frame_counter { r.push(a as u64) } r }
pub fn tr_end_row(e: &tr::End) -> Vec<u64> { let mut r = vec![]; if let Some(a) = e.latest_finalized_frame { r.push(a as u32 as u64) } r }
pub fn tr_item_row(t: &tr::Item) -> Vec<u64> {
    let mut r = vec![t.r#type as u64, t.state as u64, f(t.direction), f(t.velocity.x), f(t.velocity.y), f(t.position.x), f(t.position.y),
        t.damage as u64, f(t.timer), t.id as u64];
    if let Some(m) = t.misc { r.extend([m.0 as u64, m.1 as u64, m.2 as u64, m.3 as u64]) }
    if let Some(a) = t.owner { r.push(a as u8 as u64) }
    if let Some(a) = t.instance_id { r.push(a as u64) }
    r
}

// ---- the same column dumps for the in-progress (mutable) representation ----
use peppi::frame::mutable as mu;
pub fn mu_pre_row(p: &mu::Pre, i: usize) -> Vec<u64> {
    let mut r = vec![p.random_seed.values()[i] as u64, p.state.values()[i] as u64, f(p.position.x.values()[i]), f(p.position.y.values()[i]), f(p.direction.values()[i]),
        f(p.joystick.x.values()[i]), f(p.joystick.y.values()[i]), f(p.cstick.x.values()[i]), f(p.cstick.y.values()[i]), f(p.triggers.values()[i]),
        p.buttons.values()[i] as u64, p.buttons_physical.values()[i] as u64, f(p.triggers_physical.l.values()[i]), f(p.triggers_physical.r.values()[i])];
    if let Some(a) = &p.raw_analog_x { r.push(a.values()[i] as u8 as u64) }
    if let Some(a) = &p.percent { r.push(f(a.values()[i])) }
    if let Some(a) = &p.raw_analog_y { r.push(a.values()[i] as u8 as u64) }
    r
}
pub fn mu_post_row(p: &mu::Post, i: usize) -> Vec<u64> {
    let mut r = vec![p.character.values()[i] as u64, p.state.values()[i] as u64, f(p.position.x.values()[i]), f(p.position.y.values()[i]), f(p.direction.values()[i]),
        f(p.percent.values()[i]), f(p.shield.values()[i]), p.last_attack_landed.values()[i] as u64, p.combo_count.values()[i] as u64, p.last_hit_by.values()[i] as u64, p.stocks.values()[i] as u64];
    if let Some(a) = &p.state_age { r.push(f(a.values()[i])) }
    if let Some(s) = &p.state_flags { r.extend([s.0.values()[i] as u64, s.1.values()[i] as u64, s.2.values()[i] as u64, s.3.values()[i] as u64, s.4.values()[i] as u64]) }
    if let Some(a) = &p.misc_as { r.push(f(a.values()[i])) }
    if let Some(a) = &p.airborne { r.push(a.values()[i] as u64) }
    if let Some(a) = &p.ground { r.push(a.values()[i] as u64) }
    if let Some(a) = &p.jumps { r.push(a.values()[i] as u64) }
    if let Some(a) = &p.l_cancel { r.push(a.values()[i] as u64) }
    if let Some(a) = &p.hurtbox_state { r.push(a.values()[i] as u64) }
    if let Some(s) = &p.velocities { r.extend([f(s.self_x_air.values()[i]), f(s.self_y.values()[i]), f(s.knockback_x.values()[i]), f(s.knockback_y.values()[i]), f(s.self_x_ground.values()[i])]) }
    if let Some(a) = &p.hitlag { r.push(f(a.values()[i])) }
    if let Some(a) = &p.animation_index { r.push(a.values()[i] as u64) }
    if let Some(a) = &p.last_hit_by_instance { r.push(a.values()[i] as u64) }
    if let Some(a) = &p.instance_id { r.push(a.values()[i] as u64) }
    r
}
pub fn mu_start_row(s: &mu::Start, i: usize) -> Vec<u64> { let mut r = vec![s.random_seed.values()[i] as u64]; if let Some(a) = &s.scene_frame_counter { r.push(a.values()[i] as u64) } r }
pub fn mu_end_row(e: &mu::End, i: usize) -> Vec<u64> { let mut r = vec![]; if let Some(a) = &e.latest_finalized_frame { r.push(a.values()[i] as u32 as u64) } r }
pub fn mu_item_row(t: &mu::Item, i: usize) -> Vec<u64> {
    let mut r = vec![t.r#type.values()[i] as u64, t.state.values()[i] as u64, f(t.direction.values()[i]), f(t.velocity.x.values()[i]), f(t.velocity.y.values()[i]),
        f(t.position.x.values()[i]), f(t.position.y.values()[i]), t.damage.values()[i] as u64, f(t.timer.values()[i]), t.id.values()[i] as u64];
    if let Some(m) = &t.misc { r.extend([m.0.values()[i] as u64, m.1.values()[i] as u64, m.2.values()[i] as u64, m.3.values()[i] as u64]) }
    if let Some(a) = &t.owner { r.push(a.values()[i] as u8 as u64) }
    if let Some(a) = &t.instance_id { r.push(a.values()[i] as u64) }
    r
}
