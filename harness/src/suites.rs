use crate::{gen::*, dump, Case};
use std::io::Cursor;
use std::str::FromStr;
use peppi::io::slippi;
use peppi::frame::Rollbacks;

fn hex(b: &[u8]) -> String { b.iter().map(|x| format!("{:02x}", x)).collect() }
pub const VERS: [V; 31] = [(0,1,0),(0,2,0),(1,0,0),(1,2,0),(1,3,0),(1,4,0),(1,5,0),(2,0,0),(2,1,0),(2,2,0),(3,0,0),(3,2,0),(3,3,0),(3,5,0),(3,6,0),(3,7,0),(3,8,0),(3,9,0),(3,10,0),(3,11,0),(3,12,0),(3,13,0),(3,14,0),(3,15,0),(3,16,0),(3,17,0),(4,0,0),(2,255,0),(1,255,3),(0,255,0),(3,4,7)];

pub fn run(suite: &str, seed: u64, n: usize, out: &mut Vec<Case>) {
    let mut rng = Rng(0x9E3779B97F4A7C15 ^ seed.wrapping_mul(0x2545F4914F6CDD1D) ^ (suite.len() as u64) << 40);
    match suite { "ver" => ver(&mut rng, n, out), "roll" => roll(&mut rng, n, out), "read" => read(&mut rng, n, out), "arrow" => arrow(&mut rng, n, out), "start" => start(&mut rng, n, out), "ubj" => ubj(&mut rng, n, out), "peppi" => peppi_suite(&mut rng, n, out), _ => panic!("unknown suite {suite}") }
}

fn gen_replay(rng: &mut Rng, k: usize) -> (Replay, Vec<String>) {
    let v = VERS[k % VERS.len()];
    let mut pl = vec![]; for p in 0..4u8 { if rng.next() % 3 != 0 { let ty = (rng.next() % 3) as u8; let ch = if rng.next() % 3 == 0 { 14 } else { (rng.next() % 26) as u8 }; pl.push((p, ty, ch)); } }
    let nslots: usize = pl.iter().map(|p| if p.2 == 14 { 2 } else { 1 }).sum();
    let nf = (rng.next() % 9) as usize;
    let mut absent = vec![]; for i in 0..nf { for c in 0..nslots { if rng.next() % 4 == 0 { absent.push((i, c)); } } }
    let mut r = simple(v, &pl, nf, &absent, rng);
    if !gte(v,2,2) { r.frames.retain(|f| f.chars.iter().any(|c| c.2.is_some())); for (i, f) in r.frames.iter_mut().enumerate() { f.id = -123 + i as i32; } }
    else { for i in 1..r.frames.len() { r.frames[i].id = if rng.next() % 4 == 0 { r.frames[i-1].id - (rng.next() % 3) as i32 } else { r.frames[i-1].id + 1 }; } }
    let shape = rng.next() % 6;
    match shape { 0 => r.end = None, 1 => r.metadata = None, 2 => r.double_end = true, 3 => { r.end = None; r.metadata = None; } _ => {} }
    if gte(v,3,3) && rng.next() % 2 == 0 { let nb = 1 + (rng.next() % 3) as usize; let actual = (nb as u32 - 1) * 512 + 1 + (rng.next() % 512) as u32; r.gecko = Some((rng.bytes(512 * nb), actual)); }
    let tags = vec![format!("v{}.{}", v.0, v.1), format!("ports{}", pl.len()), format!("frames{}", r.frames.len().min(9)), format!("absent{}", absent.len().min(5)), format!("shape{}", shape), format!("gecko{}", r.gecko.is_some() as u8)];
    (r, tags)
}

fn read(rng: &mut Rng, n: usize, out: &mut Vec<Case>) {
    for k in 0..n {
        let (r, mut tags) = gen_replay(rng, k);
        let b = encode(&r);
        let skip = k % 5 == 4 && r.end.is_some(); let hash = k % 3 == 0;
        let o = slippi::de::Opts { skip_frames: skip, compute_hash: hash, ..Default::default() };
        let res = std::panic::catch_unwind(|| slippi::read(Cursor::new(&b), Some(&o)));
        let mut oracle = None;
        let line = match res { Err(_) => "panic".to_string(), Ok(Err(e)) => format!("err {}", e), Ok(Ok(g)) => {
            // the dump itself indexes the columns: keep a panic there inside the case
            let mut s = match std::panic::catch_unwind(std::panic::AssertUnwindSafe(|| dump::summary(&g))) { Ok(s) => s, Err(_) => { oracle = Some("C04 columns inconsistent: dump panicked".into()); "panic-in-dump".to_string() } };
            if hash { let exp = format!("xxh3:{:016x}", xxhash_rust::xxh3::xxh3_64(&b)); if g.hash.as_deref() != Some(exp.as_str()) { oracle = Some(format!("C11 hash {:?} != {}", g.hash, exp)); } s = s.replace("hashed=none", &format!("hashed=(some {})", b.len())); }
            else if g.hash.is_some() { oracle = Some("C11 hash reported though not requested".into()); }
            // C04 oracle: ids and presence mirror the generated history
            if !skip { let ids: Vec<i32> = g.frames.id.values().iter().cloned().collect(); let exp: Vec<i32> = r.frames.iter().map(|f| f.id).collect(); if ids != exp { oracle = Some(format!("C04 ids {:?} != {:?}", ids, exp)); } }
            s } };
        tags.push(format!("skip{}", skip as u8));
        out.push(Case { line: format!("read {} {} {}", skip as u8, hash as u8, hex(&b)), impl_out: line, oracle_fail: oracle, tags: tags.clone() });
        // C01 oracle + model comparison of the writer
        let rt = std::panic::catch_unwind(|| slippi::read(Cursor::new(&b), None).map_err(|e| format!("err {}", e)).and_then(|g| { let mut o = vec![]; slippi::write(&mut o, &g).map_err(|e| format!("err {}", e)).map(|_| o) }));
        let (line, oracle) = match rt { Err(_) => ("panic".to_string(), Some("C01 panic".to_string())), Ok(Err(e)) => { let bad = r.v <= (3,16,0); (e, bad.then(|| "C01 write(read(x)) failed".to_string())) }, Ok(Ok(o)) => { let same = o == b; (format!("ok {}", hex(&o)), (!same).then(|| "C01 write(read(x)) != x".to_string())) } };
        out.push(Case { line: format!("rt {}", hex(&b)), impl_out: line, oracle_fail: oracle, tags: vec!["rt".into()] });
    }
}

fn ver(rng: &mut Rng, n: usize, out: &mut Vec<Case>) {
    let thresholds = [(0,2),(1,0),(1,2),(1,3),(1,4),(1,5),(2,0),(2,1),(2,2),(3,0),(3,2),(3,3),(3,5),(3,6),(3,7),(3,8),(3,9),(3,10),(3,11),(3,12),(3,13),(3,14),(3,15),(3,16)];
    for k in 0..n {
        let (a, b) = if k < 4096 { ((k / 64) as u8 % 8, (k % 64) as u8) } else { ((rng.next() >> 8) as u8, (rng.next() >> 8) as u8) };
        let (m, mi) = if k % 2 == 0 { thresholds[k % thresholds.len()] } else { ((rng.next() >> 8) as u8 % 5, (rng.next() >> 8) as u8 % 20) };
        let v = slippi::Version(a, b, (rng.next() >> 8) as u8);
        let exp = (a, b) >= (m, mi);
        let got = v.gte(m, mi); let lt = v.lt(m, mi);
        out.push(Case { line: format!("gte {} {} {} {}", a, b, m, mi), impl_out: format!("{} {}", got, lt), oracle_fail: (got != exp || lt == got).then(|| format!("C20 gte({},{}) on {}.{}", m, mi, a, b)), tags: vec!["gte".into()] });
        let s = v.to_string(); let back = slippi::Version::from_str(&s);
        out.push(Case { line: format!("vdisplay {} {} {}", v.0, v.1, v.2), impl_out: s.clone(), oracle_fail: (back.as_ref().ok() != Some(&v)).then(|| format!("C20 parse(display) {}", s)), tags: vec!["display".into()] });
    }
    let pool = ["3.16.0", "+3.016.0", "3.16", "3.16.256", "3.-1.2", "", "..", "1..2", "1.2.3.", ".1.2.3", "+.1.2", "1.+.2", "-0.1.2", " 1.2.3", "1.2.3 ", "0256.1.1", "0000000255.+0.00", "1.2.3.4", "255.255.255", "+1.+2.+3", "++1.2.3", "1e1.2.3", "0x1.2.3", "1,2,3", "1.2.3\n"];
    for s in pool.iter() {
        let r = slippi::Version::from_str(s); let p = peppi::io::peppi::Version::from_str(s);
        let show = |r: Result<(u8,u8,u8), ()>| match r { Ok(v) => format!("ok {} {} {}", v.0, v.1, v.2), Err(_) => "err".to_string() };
        let a = show(r.map(|v| (v.0, v.1, v.2)).map_err(|_| ())); let b = show(p.map(|v| (v.0, v.1, v.2)).map_err(|_| ()));
        out.push(Case { line: format!("vparse {}", hex(s.as_bytes())), impl_out: a.clone(), oracle_fail: (a != b).then(|| "C20 peppi version parser differs".to_string()), tags: vec!["parse".into()] });
    }
}

fn roll(rng: &mut Rng, n: usize, out: &mut Vec<Case>) {
    use arrow2::array::PrimitiveArray;
    for k in 0..n {
        let len = (rng.next() % 12) as usize;
        let mut ids: Vec<i32> = vec![]; let mut cur = -123i32;
        for _ in 0..len { match rng.next() % 5 { 0 => {} 1 => cur -= (rng.next() % 3) as i32, _ => cur += 1 } if cur < -123 { cur = -123; } ids.push(cur); }
        if k % 50 == 49 && !ids.is_empty() { let i = (rng.next() as usize) % ids.len(); ids[i] = 2000; }
        let frame = peppi::frame::immutable::Frame { id: PrimitiveArray::from_vec(ids.clone()), ports: vec![], start: None, end: None, item_offset: None, item: None };
        for (mode, name) in [(Rollbacks::ExceptFirst, "first"), (Rollbacks::ExceptLast, "last")] {
            let got = std::panic::catch_unwind(|| frame.rollbacks(mode));
            let exp: Vec<bool> = (0..ids.len()).map(|i| if name == "first" { (0..i).any(|j| ids[j] == ids[i]) } else { (i+1..ids.len()).any(|j| ids[j] == ids[i]) }).collect();
            let (line, oracle) = match got { Err(_) => ("panic".to_string(), Some("C15 panic".to_string())), Ok(m) => (format!("ok {}", m.iter().map(|b| if *b { '1' } else { '0' }).collect::<String>()), (m != exp).then(|| format!("C15 mask {:?} != {:?}", m, exp))) };
            out.push(Case { line: format!("roll {} {}", name, ids.iter().map(|x| x.to_string()).collect::<Vec<_>>().join(",")), impl_out: line, oracle_fail: oracle, tags: vec![format!("len{}", len.min(6))] });
        }
    }
}

fn arrow(rng: &mut Rng, n: usize, out: &mut Vec<Case>) {
    use peppi::game::port_occupancy;
    for k in 0..n {
        let (r, tags) = gen_replay(rng, k);
        if r.frames.is_empty() { continue; }
        let b = encode(&r);
        let res = std::panic::catch_unwind(|| {
            let g = slippi::read(Cursor::new(&b), None).map_err(|e| format!("err {}", e))?;
            let ports = port_occupancy(&g.start); let ver = g.start.slippi.version;
            let start = g.start.clone(); let (end, md, gc, q) = (g.end, g.metadata, g.gecko_codes, g.quirks);
            let sa = g.frames.into_struct_array(ver, &ports);
            let d = crate::arrowdump::dump(&sa);
            let f2 = peppi::frame::immutable::Frame::from_struct_array(sa, ver);
            let g2 = peppi::game::immutable::Game { start, end, frames: f2, metadata: md, gecko_codes: gc, hash: None, quirks: q };
            let mut o = vec![]; let w = slippi::write(&mut o, &g2);
            Ok::<_, String>((d, w.is_ok() && o == b || ver > slippi::MAX_SUPPORTED_VERSION))
        });
        let (line, oracle) = match res { Err(_) => ("panic".to_string(), Some("C14 panic in into/from_struct_array".to_string())), Ok(Err(e)) => (e, None), Ok(Ok((d, same))) => (format!("ok {}", d), (!same).then(|| "C14 from(into(frames)) does not re-serialise identically".to_string())) };
        out.push(Case { line: format!("into {}", hex(&b)), impl_out: line, oracle_fail: oracle, tags });
    }
}

fn until_nul(b: &[u8]) -> &[u8] { &b[..b.iter().position(|&x| x == 0).unwrap_or(b.len())] }
fn sjis(b: &[u8]) -> Option<String> { encoding_rs::SHIFT_JIS.decode_without_bom_handling_and_without_replacement(b).map(|c| c.to_string()) }

/// canonical JSON of serde_json::Value with f32 / string fields replaced using the struct and the raw block (spec offsets)
fn canon_start(g: &peppi::game::Start, block: &[u8], oracle: &mut Option<String>) -> String {
    use serde_json::Value;
    let mut v = serde_json::to_value(g).unwrap();
    v["damage_ratio"] = Value::String(format!("f:{}", g.damage_ratio.to_bits()));
    for (i, p) in g.players.iter().enumerate() {
        let port = p.port as usize; let pv = &mut v["players"][i];
        pv["offense_ratio"] = Value::String(format!("f:{}", p.offense_ratio.to_bits())); pv["defense_ratio"] = Value::String(format!("f:{}", p.defense_ratio.to_bits())); pv["model_scale"] = Value::String(format!("f:{}", p.model_scale.to_bits()));
        if let Some(t) = &p.name_tag { let sl = until_nul(&block[352 + 16 * port..352 + 16 * port + 16]); if sjis(sl).as_deref() != Some(t.0.as_str()) { *oracle = Some("C19 name_tag is not the Shift-JIS decode of the bytes up to the first NUL".into()); } pv["name_tag"] = Value::String(format!("sjis:{}", hex(sl))); }
        if let Some(n) = &p.netplay {
            let a = until_nul(&block[420 + 31 * port..420 + 31 * port + 31]); let c = until_nul(&block[544 + 10 * port..544 + 10 * port + 10]);
            if sjis(a).as_deref() != Some(n.name.0.as_str()) || sjis(c).as_deref() != Some(n.code.0.as_str()) { *oracle = Some("C19 netplay name/code decode".into()); }
            pv["netplay"]["name"] = Value::String(format!("sjis:{}", hex(a))); pv["netplay"]["code"] = Value::String(format!("sjis:{}", hex(c)));
            if let Some(u) = &n.suid { pv["netplay"]["suid"] = Value::String(format!("utf8:{}", hex(u.as_bytes()))); }
        }
    }
    if let Some(m) = &g.r#match { v["match"]["id"] = Value::String(format!("utf8:{}", hex(m.id.as_bytes()))); }
    serde_json::to_string(&v).unwrap()
}

fn start(rng: &mut Rng, n: usize, out: &mut Vec<Case>) {
    for k in 0..n {
        let v = VERS[k % VERS.len()];
        let mut pl = vec![]; for p in 0..4u8 { pl.push((p, (rng.next() % 5) as u8, (rng.next() % 30) as u8)); }
        let mut b = start_block(v, &pl, rng);
        // random (mostly valid) content in the optional tails
        if b.len() >= 352 { for p in 0..4 { for j in 0..2 { let val = [0u32, 1, 2, 3][(rng.next() % 7).min(3) as usize % 4]; let vv = if rng.next() % 9 == 0 { val } else { val % 3 }; b[320 + 8 * p + 4 * j..320 + 8 * p + 4 * j + 4].copy_from_slice(&vv.to_be_bytes()); } } }
        if b.len() >= 416 { for p in 0..4 { let l = (rng.next() % 17) as usize; for j in 0..l.min(16) { b[352 + 16 * p + j] = match rng.next() % 6 { 0 => 0x82, 1 => 0xa0, 2 => 0xb1, 3 => 0, _ => 0x41 + (rng.next() % 26) as u8 }; } } }
        if b.len() >= 584 { for p in 0..4 { let l = (rng.next() % 12) as usize; for j in 0..l { b[420 + 31 * p + j] = 0x30 + (rng.next() % 40) as u8; } for j in 0..(rng.next() % 9) as usize { b[544 + 10 * p + j] = 0x41 + (rng.next() % 26) as u8; } } }
        if b.len() >= 700 { for p in 0..4 { for j in 0..(rng.next() % 29) as usize { b[584 + 29 * p + j] = 0x61 + (rng.next() % 26) as u8; } } }
        if b.len() >= 701 { b[700] = (rng.next() % 3) as u8 % 2; }
        if b.len() >= 760 { for j in 0..(rng.next() % 51) as usize { b[701 + j] = 0x30 + (rng.next() % 10) as u8; } }
        if k % 7 == 6 { let cut = (rng.next() as usize) % b.len(); b.truncate(cut.max(1)); }
        // run through the real reader: wrap into a minimal file
        let r = Replay { v, start_block: b.clone(), gecko: None, frames: vec![], end: None, double_end: false, metadata: None, extra_payloads: vec![] };
        let file = encode(&r);
        let mut oracle = None;
        let res = std::panic::catch_unwind(std::panic::AssertUnwindSafe(|| slippi::read(Cursor::new(&file), None).map(|g| canon_start(&g.start, &b, &mut oracle))));
        let line = match res { Err(_) => "panic".to_string(), Ok(Err(_)) => "err".to_string(), Ok(Ok(j)) => format!("ok {}", j) };
        let mut sj_ok = true;
        for p in 0..4 { if b.len() >= 416 { sj_ok &= sjis(until_nul(&b[352 + 16 * p..352 + 16 * p + 16])).is_some(); }
            if b.len() >= 584 { sj_ok &= sjis(until_nul(&b[420 + 31 * p..420 + 31 * p + 31])).is_some() && sjis(until_nul(&b[544 + 10 * p..544 + 10 * p + 10])).is_some(); } }
        out.push(Case { line: format!("start {} {}", sj_ok as u8, hex(&b)), impl_out: line, oracle_fail: oracle, tags: vec![format!("v{}.{}", v.0, v.1), format!("len{}", b.len())] });
    }
}

fn gen_tree(rng: &mut Rng, depth: usize, out: &mut Vec<u8>) {
    let n = (rng.next() % 4) as usize;
    for i in 0..n {
        let klen = (rng.next() % 4) as usize; out.push(b'U'); out.push(klen as u8 + 1); out.push(b'a' + i as u8); for _ in 0..klen { out.push(b'a' + (rng.next() % 26) as u8); }
        match rng.next() % 4 {
            0 => { out.push(b'l'); out.extend(((rng.next() >> 16) as i32).to_be_bytes()); }
            1 => { let s: Vec<u8> = match rng.next() % 4 { 0 => vec![], 1 => "né😀".as_bytes().to_vec(), 2 => vec![b'x'; 255], _ => (0..(rng.next() % 9)).map(|_| 0x20 + (rng.next() % 90) as u8).collect() }; out.push(b'S'); out.push(b'U'); out.push(s.len() as u8); out.extend(s); }
            _ => { if depth < 4 { out.push(b'{'); gen_tree(rng, depth + 1, out); out.push(b'}'); } else { out.push(b'l'); out.extend(7i32.to_be_bytes()); } }
        }
    }
}
fn json_dump(m: &serde_json::Map<String, serde_json::Value>) -> String {
    let mut s = String::new();
    for (k, v) in m { s += &hex(k.as_bytes()); s.push('='); match v { serde_json::Value::String(x) => { s += "s:"; s += &hex(x.as_bytes()); } serde_json::Value::Number(n) => { s += &format!("i:{}", n) } serde_json::Value::Object(o) => { s.push('{'); s += &json_dump(o); s.push('}'); } _ => s += "?" } s.push(';'); }
    s
}
fn ubj(rng: &mut Rng, n: usize, out: &mut Vec<Case>) {
    for k in 0..n {
        let mut body = vec![]; gen_tree(rng, 1, &mut body);
        if k % 40 == 39 { let d = 120 + (rng.next() % 20) as usize; body.clear(); for _ in 0..d - 1 { body.extend(b"U\x01a{"); } for _ in 0..d - 1 { body.push(b'}'); } }
        if k % 9 == 8 && !body.is_empty() { let i = (rng.next() as usize) % body.len(); body[i] = (rng.next() >> 8) as u8; }
        let mut r = simple((3,16,0), &[(0,0,2)], 1, &[], rng); r.metadata = Some(body.clone());
        let file = encode(&r);
        let mut oracle = None;
        let res = std::panic::catch_unwind(std::panic::AssertUnwindSafe(|| { let mut cur = Cursor::new(&file); slippi::read(&mut cur, None).map(|g| { let m = g.metadata.clone().unwrap(); let mut o = vec![]; let w = slippi::write(&mut o, &g);
            // bytes after the map's own closing brace (the file's final brace included), from the reader's position
            let rest = file.len() as u64 - cur.position() + 1;
            if w.is_ok() && o != file && k % 9 != 8 { oracle = Some("C16 metadata bytes not reproduced".to_string()); }
            // the model's `back` is the re-encoded map body: recover it from the written file by locating the key
            let key = b"U\x08metadata{";
            let back = if w.is_ok() { let start = o.windows(key.len()).rposition(|w| w == key).unwrap() + key.len(); hex(&o[start..o.len() - 2]) } else { "?".into() };
            format!("ok {} rest={} back={}", json_dump(&m), rest, back) }) }));
        let line = match res { Err(_) => "panic".to_string(), Ok(Err(_)) => "err".to_string(), Ok(Ok(j)) => j };
        let mut arg = body.clone(); arg.push(b'}'); arg.push(b'}');
        out.push(Case { line: format!("ubj {}", hex(&arg)), impl_out: line, oracle_fail: oracle, tags: vec![format!("len{}", (body.len() / 50).min(9))] });
    }
}

fn canon_end(e: &peppi::game::End) -> String { serde_json::to_string(&serde_json::to_value(e).unwrap()).unwrap() }

fn peppi_suite(rng: &mut Rng, n: usize, out: &mut Vec<Case>) {
    use std::io::Read;
    use arrow2::io::ipc::read::{read_stream_metadata, StreamReader, StreamState};
    let comps = [None, Some(arrow2::io::ipc::write::Compression::LZ4), Some(arrow2::io::ipc::write::Compression::ZSTD)];
    for k in 0..n {
        let (r, tags) = gen_replay(rng, k);
        let b = encode(&r);
        let comp = comps[k % 3];
        let mut oracle = None;
        let res = std::panic::catch_unwind(std::panic::AssertUnwindSafe(|| -> Result<String, String> {
            let g = slippi::read(Cursor::new(&b), None).map_err(|_| "err".to_string())?;
            let start = g.start.clone(); let endc = g.end.clone();
            let mut buf = vec![];
            peppi::io::peppi::write(&mut buf, g, Some(&peppi::io::peppi::ser::Opts { compression: comp })).map_err(|_| "err".to_string())?;
            if &buf[..10] != b"peppi.json" { oracle = Some("C18 signature not at offset 0".into()); }
            // C02 oracle: back to .slp
            match peppi::io::peppi::read(Cursor::new(&buf), None) { Ok(g2) => { let mut o = vec![]; if slippi::write(&mut o, &g2).is_err() || o != b { oracle = Some("C02 slp -> slpp -> slp differs".into()); } } Err(e) => oracle = Some(format!("C02 slpp unreadable: {}", e)) }
            let mut parts = vec![];
            for e in tar::Archive::new(Cursor::new(&buf)).entries().unwrap() {
                let mut e = e.unwrap(); let name = e.path().unwrap().to_string_lossy().to_string(); let mut c = vec![]; e.read_to_end(&mut c).unwrap();
                let content = match name.as_str() {
                    "peppi.json" => String::from_utf8(c).unwrap(),
                    "metadata.json" => { let v: serde_json::Value = serde_json::from_slice(&c).unwrap(); match v { serde_json::Value::Object(m) => format!("{{{}}}", json_dump(&m)), _ => "null".into() } }
                    "start.json" => { let mut o2 = None; let s = canon_start(&start, &start.bytes.0, &mut o2); if c != serde_json::to_vec(&start).unwrap() || serde_json::from_slice::<serde_json::Value>(&c).is_err() { oracle = Some("C18 start.json is not the rendering of the start block".into()); } s }
                    "end.json" => { if Some(c.clone()) != endc.as_ref().map(|e| serde_json::to_vec(e).unwrap()) { oracle = Some("C18 end.json".into()); } canon_end(endc.as_ref().unwrap()) }
                    "frames.arrow" => { let mut rd = Cursor::new(&c[8..]); let md = read_stream_metadata(&mut rd).unwrap(); let mut sr = StreamReader::new(rd, md, None);
                        match sr.next() { Some(Ok(StreamState::Some(chunk))) => crate::arrowdump::dump(chunk.arrays()[0].as_ref()), _ => "?".into() } }
                    _ => hex(&c),
                };
                parts.push(format!("{}={}", name, content));
            }
            Ok(format!("ok {}", parts.join("|")))
        }));
        let line = match res { Err(_) => "panic".to_string(), Ok(Err(e)) => e, Ok(Ok(s)) => s };
        let mut t2 = tags.clone(); t2.push(format!("comp{}", k % 3));
        out.push(Case { line: format!("pwrite 1 {}", hex(&b)), impl_out: line, oracle_fail: oracle, tags: t2 });
    }
}
