//! Suites over well-formed replays: generators, real-code execution, implementation-level oracles.
use crate::{dump, gen::*, spec, Case, Ctx};
use peppi::frame::immutable as im;
use peppi::frame::Rollbacks;
use peppi::game::immutable::Game;
use peppi::io::slippi;
use std::io::Cursor;
use std::str::FromStr;

pub fn hex(b: &[u8]) -> String { let mut s = String::with_capacity(b.len() * 2); for x in b { s.push_str(&format!("{:02x}", x)); } s }
pub const MAXV: V = (3, 16, 0);

/// Appendix C: every gate threshold, its predecessor, the 255 edge of its major, and a few beyond the maximum.
pub fn version_classes() -> Vec<V> {
    let th: [(u8, u8); 24] = [(0,2),(1,0),(1,2),(1,3),(1,4),(1,5),(2,0),(2,1),(2,2),(3,0),(3,2),(3,3),(3,5),(3,6),(3,7),(3,8),(3,9),(3,10),(3,11),(3,12),(3,13),(3,14),(3,15),(3,16)];
    let mut out: Vec<V> = vec![(0,1,0)];
    for (a, b) in th { out.push((a, b, 0)); let p = if b > 0 { (a, b - 1, 0) } else { (a - 1, 255, 0) }; if !out.contains(&p) { out.push(p); } }
    for m in 0..3u8 { out.push((m, 255, 7)); }
    out.push((3, 4, 7)); out.push((1, 1, 255)); out.push((3, 16, 0));
    out
}
/// versions above the maximum supported one (readers accept them, writers must refuse them)
pub const NEWER: [V; 6] = [(3,16,1),(3,17,0),(3,255,0),(4,0,0),(200,3,9),(255,255,255)];

pub fn run(suite: &str, ctx: &mut Ctx) {
    let mut rng = Rng(0x9E3779B97F4A7C15 ^ ctx.seed.wrapping_mul(0x2545F4914F6CDD1D) ^ (suite.bytes().fold(0u64, |a, b| a * 131 + b as u64)) << 20 | 1);
    for _ in 0..4 { rng.next(); }
    match suite {
        "ver" => ver(&mut rng, ctx), "roll" => roll(&mut rng, ctx), "read" => read(&mut rng, ctx), "arrow" => arrow(&mut rng, ctx),
        "start" => start(&mut rng, ctx), "ubj" => ubj(&mut rng, ctx), "peppi" => peppi_suite(&mut rng, ctx),
        _ => crate::suites2::run(suite, &mut rng, ctx),
    }
}

pub struct GenOpts { pub max_frames: usize, pub newer: bool, pub force: Option<V> }

/// a well-formed history; `k` walks the version classes, port shapes and container shapes systematically
pub fn gen_replay(rng: &mut Rng, k: usize, o: &GenOpts) -> (Replay, Vec<String>) {
    let classes = version_classes();
    let mut v = if k < 2 * classes.len() { classes[k % classes.len()] } else if rng.next() % 4 == 0 { classes[(rng.next() as usize) % classes.len()] } else { ((rng.next() % 4) as u8, (rng.next() % 20) as u8, (rng.next() >> 9) as u8) };
    if v > MAXV && !o.newer { v = (3, 16, 0); }
    if o.newer { v = NEWER[k % NEWER.len()]; }
    if let Some(f) = o.force { v = f; }
    if v == (0, 0, v.2) { v = (0, 1, v.2); }
    let mut pl = vec![];
    // port subsets: walk all 16 subsets, ICs flags at random
    let many_frames = k % 40 == 23 && o.max_frames >= 5;
    let mask = if many_frames { [1usize, 4, 8, 2][(k / 40) % 4] } else if k % 3 == 0 { (k / 3) % 16 } else { (rng.next() % 16) as usize };
    for p in 0..4u8 { if mask >> p & 1 == 1 { let ty = (rng.next() % 3) as u8; let ch = if rng.next() % 3 == 0 { 14 } else { (rng.next() % 26) as u8 }; pl.push((p, ty, ch)); } }
    let nslots: usize = pl.iter().map(|p| if p.2 == 14 { 2 } else { 1 }).sum();
    let mut nf = (rng.next() as usize) % (o.max_frames + 1);
    // frame counts at the boundaries of 8-bit counters, and files beyond 64 KiB (few characters, to keep the file small)
    if many_frames { nf = [255usize, 256, 257, 300][(k / 40) % 4]; }
    let dens = 2 + rng.next() % 5;
    let mut absent = vec![]; for i in 0..nf { for c in 0..nslots { if rng.next() % dens == 0 { absent.push((i, c)); } } }
    let mut r = simple(v, &pl, nf, &absent, rng);
    // teams on / off (the byte is random otherwise, which is "on" 255 times in 256): absent characters occur in free-for-all games as in team games
    if r.start_block.len() > 12 { r.start_block[12] = if (k + k / 4) % 2 == 0 { 0 } else { 1 + (rng.next() % 255) as u8 }; }
    if !gte(v,2,2) { r.frames.retain(|f| f.chars.iter().any(|c| c.2.is_some())); for (i, f) in r.frames.iter_mut().enumerate() { f.id = -123 + i as i32; } }
    else { let mode = rng.next() % 4; for i in 1..r.frames.len() { let prev = r.frames[i-1].id; r.frames[i].id = match mode {
        0 => prev + 1, 1 => if rng.next() % 3 == 0 { prev } else { prev + 1 }, 2 => if rng.next() % 4 == 0 { (prev - (rng.next() % 4) as i32).max(-123) } else { prev + 1 },
        _ => if rng.next() % 5 == 0 { -123 + (rng.next() % (i as u64 + 1)) as i32 } else { prev + 1 } }; } }
    // item counts per frame at the boundaries of small counters (the recorder never emits that many; the format allows it)
    if gte(v,3,0) && !r.frames.is_empty() && k % 6 == 1 { let n = [16usize, 256, 17, 257, 15, 300, 255][(k / 6) % 7]; let fi = (rng.next() as usize) % r.frames.len(); let isz = r.frames[fi].items.first().map_or(0, |x| x.len());
        let isz = if isz == 0 { crate::gen::item_size(v) - 4 } else { isz }; while r.frames[fi].items.len() < n { r.frames[fi].items.push(rng.bytes(isz)); } }
    // items that repeat within a frame: the same spawn id on adjacent Item events (k % 7 == 3), or the whole event twice (k % 14 == 10)
    if gte(v,3,0) && k % 7 == 3 { for f in r.frames.iter_mut() { if f.items.is_empty() { continue; } if f.items.len() == 1 || k % 14 == 10 { let it = f.items[0].clone(); f.items.insert(1, it); } else if f.items[0].len() >= 33 { let id = f.items[0][29..33].to_vec(); f.items[1][29..33].copy_from_slice(&id); } } }
    let shape = if k % 2 == 0 { (k / 2) % 6 } else { (rng.next() % 6) as usize };
    match shape { 0 => r.end = None, 1 => r.metadata = None, 2 => r.double_end = true, 3 => { r.end = None; r.metadata = None; } _ => {} }
    if let Some(e) = r.end.as_mut() { e[0] = [0u8, 1, 2, 3, 7][(rng.next() % 5) as usize]; if e.len() >= 2 { e[1] = [255u8, 0, 1, 2, 3][(rng.next() % 5) as usize]; } if e.len() >= 6 { for j in 2..6 { e[j] = [255u8, 0, 1, 2, 3][(rng.next() % 5) as usize]; } } }
    // the Game End block is as long as the payload table says, whatever the version: every layout the reader accepts (1, 2, 6 bytes, and longer) at any version
    // (a *duplicated* Game End is recognised by its size being the version's own: only single Game Ends vary in length)
    if k % 11 == 5 && !r.double_end { if let Some(e) = r.end.as_mut() { let want = [6usize, 2, 1, 8, 2, 6][(k / 11) % 6]; let fill = [255u8, 255, 0, 1, 255, 2, 9, 9]; while e.len() < want { e.push(fill[e.len()]); } e.truncate(want); } }
    if gte(v,3,3) && rng.next() % 2 == 0 { let nb = 1 + (rng.next() % 3) as usize; let last = match rng.next() % 6 { 0 => 512, 1 => 1, 2 => 511, _ => 1 + (rng.next() % 512) as u32 }; let actual = (nb as u32 - 1) * 512 + last; r.gecko = Some((rng.bytes(512 * nb), actual)); }
    if rng.next() % 3 == 0 { let mut m = vec![]; gen_tree(rng, 1, &mut m); r.metadata = r.metadata.map(|_| m); }
    // metadata nested as deep as the reader accepts (127 maps, the metadata map included), and one less
    if k % 29 == 11 && r.metadata.is_some() { let d = [127usize, 126][(k / 29) % 2]; let mut m = vec![]; for _ in 0..d - 1 { m.extend(b"U\x01a{"); } for _ in 0..d - 1 { m.push(b'}'); } r.metadata = Some(m); }
    let tags = vec![format!("v{}.{}", v.0, v.1), format!("ports{}", pl.len()), format!("slots{}", nslots), (if r.frames.len() >= 255 { "frames255+".to_string() } else { format!("frames{}", r.frames.len().min(9)) }), format!("absent{}", absent.len().min(5)),
        format!("shape{}", shape), format!("gecko{}", r.gecko.is_some() as u8), format!("regime{}", if gte(v,3,0) { "A" } else if gte(v,2,2) { "B" } else { "C" }),
        format!("maxitems:{}", match r.frames.iter().map(|f| f.items.len()).max().unwrap_or(0) { 0..=5 => "0-5", 6..=17 => "15-17", 18..=255 => "255", _ => "256+" }),
        format!("endlen:{}", match &r.end { None => "none".to_string(), Some(e) => if e.len() == crate::gen::gend_size(v) { "nominal".to_string() } else { format!("{}", e.len()) } })];
    (r, tags)
}

pub fn start_json(s: &peppi::game::Start) -> String { serde_json::to_string(s).unwrap_or_else(|_| "?".into()) }
pub fn end_json(e: &Option<peppi::game::End>) -> String { serde_json::to_string(e).unwrap_or_else(|_| "?".into()) }

/// C04 / C03 / C13 stated on the real game against the generated history (independent spec tables)
pub fn check_frames(r: &Replay, g: &Game, c: &mut Case) {
    let v = r.v; let fr = &g.frames; let n = r.frames.len();
    let ids: Vec<i32> = fr.id.values().iter().cloned().collect(); let exp: Vec<i32> = r.frames.iter().map(|f| f.id).collect();
    if ids != exp { c.fail("C04", format!("frame ids {:?} != history {:?}", ids, exp)); return; }
    let tpl = slots_of(&r.start_block);
    let mut slots: Vec<(&im::Data, u8, bool)> = vec![];
    for p in &fr.ports { slots.push((&p.leader, p.port as u8, false)); if let Some(f) = &p.follower { slots.push((f, p.port as u8, true)); } }
    let shape: Vec<(u8, bool)> = slots.iter().map(|s| (s.1, s.2)).collect();
    if shape != tpl { c.fail("C04", format!("character slots {:?} != occupied ports {:?}", shape, tpl)); return; }
    for (ci, (d, port, fol)) in slots.iter().enumerate() {
        let (np, nq) = (d.pre.random_seed.len(), d.post.character.len());
        if np != n || nq != n { c.fail("C04", format!("port {} follower {}: {} pre / {} post rows for {} frames", port, fol, np, nq, n));
            c.fail("C03", format!("port {} follower {}: {} pre / {} post rows for {} frames, so row i does not hold the field values of frame i", port, fol, np, nq, n)); continue; }
        if let Some(b) = &d.validity { if b.len() != n { c.fail("C04", format!("port {} validity length {} != {}", port, b.len(), n)); continue; } }
        for i in 0..n {
            let occ = &r.frames[i].chars[ci].2;
            let valid = d.validity.as_ref().map_or(true, |b| b.get_bit(i));
            if valid != occ.is_some() { c.fail("C04", format!("frame row {} port {} follower {}: present={} but history says {}", i, port, fol, valid, occ.is_some()));
                c.fail("C03", format!("frame row {} port {} follower {}: {}", i, port, fol, if valid { "the row shows field values although the character has no event in that frame (they are another frame's)" } else { "the fields of the character's events in that frame are reported absent" })); continue; }
            if let Some(ev) = occ {
                let mut pay = r.frames[i].id.to_be_bytes().to_vec(); pay.push(*port); pay.push(*fol as u8);
                let mut p1 = pay.clone(); p1.extend(&ev.pre); let mut p2 = pay.clone(); p2.extend(&ev.post);
                let (e1, e2) = (spec::decode(spec::PRE, v, &p1), spec::decode(spec::POST, v, &p2));
                let (a1, a2) = (dump::pre_row(&d.pre, i), dump::post_row(&d.post, i));
                if a1 != e1 { c.fail("C03", format!("pre row {} port {}: {:?} != spec-offset values {:?}", i, port, a1, e1)); c.fail("C04", format!("pre row {} port {} does not hold that occurrence's values", i, port)); }
                if a2 != e2 { c.fail("C03", format!("post row {} port {}: {:?} != spec-offset values {:?}", i, port, a2, e2)); c.fail("C04", format!("post row {} port {} does not hold that occurrence's values", i, port)); }
            }
        }
    }
    // start / end / items
    match (&fr.start, gte(v,2,2)) { (Some(s), true) => {
        if s.random_seed.len() != n { c.fail("C04", format!("start column has {} rows for {} frames", s.random_seed.len(), n)); }
        else { for i in 0..n { let mut p = r.frames[i].id.to_be_bytes().to_vec(); p.extend(&r.frames[i].start); let e = spec::decode(spec::START, v, &p); let a = dump::start_row(s, i); if a != e { c.fail("C03", format!("frame start row {}: {:?} != {:?}", i, a, e)); } } } }
        (None, false) => {} (a, b) => c.fail("C03", format!("start columns present={} but version {:?} has frame start={}", a.is_some(), v, b)) }
    match (&fr.end, gte(v,3,0)) { (Some(s), true) => {
        if let Some(col) = &s.latest_finalized_frame { if col.len() != n { c.fail("C04", format!("end column has {} rows for {} frames", col.len(), n)); } }
        if let (None, Some(b)) = (&s.latest_finalized_frame, &s.validity) { if b.len() != n { c.fail("C04", format!("end column (no member below 3.7, rows counted by its validity bitmap) has {} entries for {} frames", b.len(), n)); } else if b.unset_bits() != 0 { c.fail("C04", "end column marks a frame's Frame End as absent".to_string()); } }
        if s.latest_finalized_frame.is_some() != gte(v,3,7) { c.fail("C03", "latest_finalized_frame presence does not match version".to_string()); }
        else if s.latest_finalized_frame.as_ref().map_or(true, |c| c.len() == n) { for i in 0..n { let mut p = r.frames[i].id.to_be_bytes().to_vec(); p.extend(&r.frames[i].end); let e = spec::decode(spec::END, v, &p); let a = dump::end_row(s, i); if a != e { c.fail("C03", format!("frame end row {}: {:?} != {:?}", i, a, e)); } } } }
        (None, false) => {} (a, b) => c.fail("C03", format!("end columns present={} but version {:?} has frame end={}", a.is_some(), v, b)) }
    match (&fr.item, &fr.item_offset, gte(v,3,0)) { (Some(it), Some(off), true) => {
        let exp_off: Vec<i32> = std::iter::once(0).chain(r.frames.iter().scan(0i32, |a, f| { *a += f.items.len() as i32; Some(*a) })).collect();
        let got: Vec<i32> = off.iter().cloned().collect();
        if got != exp_off { c.fail("C04", format!("item offsets {:?} != {:?}", got, exp_off)); }
        else { let mut j = 0; for f in &r.frames { for bytes in &f.items { let mut p = f.id.to_be_bytes().to_vec(); p.extend(bytes); let e = spec::decode(spec::ITEM, v, &p);
            if j >= it.r#type.len() { c.fail("C04", "item column shorter than offsets".to_string()); break; }
            let a = dump::item_row(it, j); if a != e { c.fail("C03", format!("item row {}: {:?} != {:?}", j, a, e)); c.fail("C04", format!("item {} is not that occurrence's item", j)); } j += 1; } } } }
        (None, None, false) => {} _ => c.fail("C04", format!("item columns do not match version {:?}", v)) }
    // C13: the row view against the columns (both read from public fields by hand)
    if c.oracle.is_empty() { check_row_view(g, c); }
}

/// one row view (`transpose::Frame`) against the columns of `fr` at index `i`, both read from public fields by hand
pub fn compare_view(t: &peppi::frame::transpose::Frame, fr: &im::Frame, i: usize) -> Result<(), String> {
    if t.id != fr.id.values()[i] { return Err(format!("frame({}).id {} != column {}", i, t.id, fr.id.values()[i])); }
    if t.ports.len() != fr.ports.len() { return Err(format!("frame({}) has {} ports, columns {}", i, t.ports.len(), fr.ports.len())); }
    for (tp, cp) in t.ports.iter().zip(&fr.ports) {
        if tp.port != cp.port { return Err(format!("frame({}) port {:?} != {:?}", i, tp.port, cp.port)); }
        let mut pairs = vec![(&tp.leader, &cp.leader)];
        match (&tp.follower, &cp.follower) { (Some(a), Some(b)) => pairs.push((a, b)), (None, None) => {} _ => return Err(format!("frame({}) follower presence differs from columns", i)) }
        for (a, b) in pairs {
            if dump::tr_pre_row(&a.pre) != dump::pre_row(&b.pre, i) { return Err(format!("frame({}) port {:?} pre {:?} != columns {:?}", i, tp.port, dump::tr_pre_row(&a.pre), dump::pre_row(&b.pre, i))); }
            if dump::tr_post_row(&a.post) != dump::post_row(&b.post, i) { return Err(format!("frame({}) port {:?} post {:?} != columns {:?}", i, tp.port, dump::tr_post_row(&a.post), dump::post_row(&b.post, i))); }
        }
    }
    match (&t.start, &fr.start) { (Some(a), Some(b)) => if dump::tr_start_row(a) != dump::start_row(b, i) { return Err(format!("frame({}) start differs", i)); }, (None, None) => {} _ => return Err(format!("frame({}) start presence differs", i)) }
    match (&t.end, &fr.end) { (Some(a), Some(b)) => if dump::tr_end_row(a) != dump::end_row(b, i) { return Err(format!("frame({}) end differs", i)); }, (None, None) => {} _ => return Err(format!("frame({}) end presence differs", i)) }
    match (&t.items, &fr.item, &fr.item_offset) { (Some(items), Some(col), Some(off)) => {
        let (s, e) = (off.as_slice()[i] as usize, off.as_slice()[i + 1] as usize);
        if items.len() != e - s { return Err(format!("frame({}) has {} items, offsets delimit {}", i, items.len(), e - s)); }
        for (k, it) in items.iter().enumerate() { if dump::tr_item_row(it) != dump::item_row(col, s + k) { return Err(format!("frame({}) item {} differs from column row {}", i, k, s + k)); } } }
        (None, None, None) => {} _ => return Err(format!("frame({}) items presence differs", i)) }
    Ok(())
}

pub fn check_row_view(g: &Game, c: &mut Case) {
    use peppi::game::Game as _;
    for i in 0..g.frames.id.len() {
        let t = match std::panic::catch_unwind(std::panic::AssertUnwindSafe(|| g.frame(i))) { Ok(t) => t, Err(_) => { c.fail("C13", format!("frame({}) panicked", i)); return; } };
        if let Err(e) = compare_view(&t, &g.frames, i) { c.fail("C13", e); return; }
    }
}

/// the external Shift-JIS decoder's verdict on the name fields of the file's Game Start block (all four ports, as the
/// reader decodes them), located through the payload table; `true` when the block cannot be located or is too short
pub fn sjis_verdict(b: &[u8]) -> bool {
    let get = |i: usize| b.get(i).copied();
    if get(15) != Some(0x35) { return true; }
    let tl = match get(16) { Some(x) if x >= 1 => x as usize - 1, _ => return true };
    let mut size = None; let mut i = 17; while i + 3 <= 17 + tl { if get(i) == Some(0x36) { if let (Some(a), Some(c)) = (get(i + 1), get(i + 2)) { size = Some(((a as usize) << 8) | c as usize); } } i += 3; }
    let st = 17 + tl; if get(st) != Some(0x36) { return true; }
    let size = match size { Some(s) => s, None => return true };
    let blk = match b.get(st + 1..st + 1 + size) { Some(x) => x, None => return true };
    let mut ok = true;
    for p in 0..4 { if blk.len() >= 416 { ok &= sjis(until_nul(&blk[352 + 16 * p..352 + 16 * p + 16])).is_some(); }
        if blk.len() >= 584 { ok &= sjis(until_nul(&blk[420 + 31 * p..420 + 31 * p + 31])).is_some() && sjis(until_nul(&blk[544 + 10 * p..544 + 10 * p + 10])).is_some(); } }
    ok
}
/// the driver line for a `read`: the decoder verdict travels with the case when it is negative
pub fn read_cmd(skip: bool, hash: bool, b: &[u8]) -> String { if sjis_verdict(b) { format!("read {} {} {}", skip as u8, hash as u8, hex(b)) } else { format!("read {} {} sj0 {}", skip as u8, hash as u8, hex(b)) } }

/// the same read, to be run by the model as a program of exact reads over a source cut into pieces of the given sizes
pub fn reads_cmd(skip: bool, hash: bool, plan: &[usize], b: &[u8]) -> String {
    let p: Vec<String> = plan.iter().take(24).map(|k| (*k).min(1 << 20).to_string()).collect();
    format!("reads {} {} {} {} {}", skip as u8, hash as u8, sjis_verdict(b) as u8, p.join(","), hex(b)) }

pub fn read_opts(skip: bool, hash: bool) -> slippi::de::Opts { slippi::de::Opts { skip_frames: skip, compute_hash: hash, ..Default::default() } }

/// the canonical `read` result line; the summary is computed inside the catch
pub fn read_line(b: &[u8], skip: bool, hash: bool) -> (String, Option<Game>) {
    let o = read_opts(skip, hash);
    // every third read happens with a logger installed at trace level (the library logs through the `log` facade)
    static CALLS: std::sync::atomic::AtomicUsize = std::sync::atomic::AtomicUsize::new(0);
    let lg = CALLS.fetch_add(1, std::sync::atomic::Ordering::Relaxed) % 3 == 2; crate::logging(lg);
    let r = read_line_(b, &o, hash); crate::logging(false); r
}
fn read_line_(b: &[u8], o: &slippi::de::Opts, hash: bool) -> (String, Option<Game>) {
    let res = std::panic::catch_unwind(|| slippi::read(Cursor::new(b), Some(o)));
    match res { Err(_) => ("panic".to_string(), None), Ok(Err(e)) => (format!("err {}", e), None), Ok(Ok(g)) => {
        match std::panic::catch_unwind(std::panic::AssertUnwindSafe(|| dump::summary(&g))) {
            Ok(mut s) => { (s, Some(g)) }
            Err(_) => ("panic-in-dump".to_string(), Some(g)) } } }
}

/// the same read from a source whose position is not 0 when `read` is called: the replay sits behind `pre` foreign bytes and is
/// followed by `post` more (a container, or replays stored back to back); the result must not depend on that
pub fn read_line_at(b: &[u8], skip: bool, hash: bool, pre: usize, post: usize) -> String {
    let o = read_opts(skip, hash);
    let mut buf: Vec<u8> = (0..pre).map(|i| (i as u8).wrapping_mul(37) ^ 0x7b).collect(); buf.extend_from_slice(b); buf.extend((0..post).map(|i| 0x7d ^ (i as u8)));
    let res = std::panic::catch_unwind(|| { let mut c = Cursor::new(&buf[..]); c.set_position(pre as u64); let r = slippi::read(&mut c, Some(&o)); (r, c.position()) });
    match res { Err(_) => "panic".to_string(), Ok((Err(e), _)) => format!("err {}", e), Ok((Ok(g), pos)) => {
        match std::panic::catch_unwind(std::panic::AssertUnwindSafe(|| dump::summary(&g))) {
            Ok(mut s) => { if pos as usize != pre + b.len() { s.push_str(&format!(" endpos={}!={}", pos, pre + b.len())); }
                // the hash covers the bytes consumed, not what lies before the replay in the source
                let want = if hash { Some(format!("xxh3:{:016x}", xxhash_rust::xxh3::xxh3_64(b))) } else { None };
                if g.hash != want { s.push_str(&format!(" hash={:?}!={:?}", g.hash, want)); }
                s }
            Err(_) => "panic-in-dump".to_string() } } }
}

pub fn write_slp(g: &Game) -> Result<Vec<u8>, String> {
    match std::panic::catch_unwind(std::panic::AssertUnwindSafe(|| { let mut o = vec![]; slippi::write(&mut o, g).map(|_| o).map_err(|e| format!("err {}", e)) })) { Ok(r) => r, Err(_) => Err("panic".into()) }
}

fn read(rng: &mut Rng, ctx: &mut Ctx) {
    let go = GenOpts { max_frames: if ctx.thorough { 40 } else { 9 }, newer: false, force: None };
    for k in 0..ctx.n {
        // the model's XXH3-64 against the crate's on byte strings of every length class (0, 1-3, 4-8, 9-16, 17-128, 129-240, long: stripe and
        // block boundaries), one-shot and through the streaming hasher fed in pieces
        { const LENS: [usize; 40] = [0, 1, 2, 3, 4, 5, 7, 8, 9, 15, 16, 17, 31, 32, 33, 64, 65, 96, 97, 128, 129, 143, 144, 160, 239, 240, 241, 255, 256, 304, 305, 1023, 1024, 1025, 1088, 1089, 2048, 2049, 3073, 4160];
            let len = LENS[k % 40] + if k >= 40 { (rng.next() % 700) as usize } else { 0 }; let data = rng.bytes(len);
            let one = xxhash_rust::xxh3::xxh3_64(&data); let mut st = xxhash_rust::xxh3::Xxh3::new(); let step = 1 + (rng.next() % 300) as usize; for ch in data.chunks(step) { st.update(ch); }
            let mut c = Case::new(format!("xxh3 {}", hex(&data)), format!("ok xxh3:{:016x}", one)); c.tags = vec![format!("xxh3-len:{}", match len { 0 => "0", 1..=3 => "1-3", 4..=8 => "4-8", 9..=16 => "9-16", 17..=128 => "17-128", 129..=240 => "129-240", _ => "long" })];
            if st.digest() != one { c.fail("C11", format!("streaming XXH3 of {} bytes fed in pieces of {} differs from the one-shot value", len, step)); }
            ctx.push(c); }
        let (r, tags) = gen_replay(rng, k, &go);
        let b = encode(&r);
        let hash = k % 3 == 0;
        // history: every other hashed read follows a hashed read of a truncated copy that fails part-way (same thread): nothing of it may carry over
        if hash && k % 2 == 0 { let cut = [b.len() * 2 / 3, b.len().saturating_sub(1), 20.min(b.len())][(k / 6) % 3]; let o = read_opts(k % 4 == 0, true);
            let _ = std::panic::catch_unwind(|| slippi::read(Cursor::new(&b[..cut]), Some(&o)).is_ok()); }
        // full read
        let (line, g) = read_line(&b, false, hash);
        let mut c = Case::new(read_cmd(false, hash, &b), line.clone()); c.tags = tags.clone(); c.tags.push(format!("hash{}", hash as u8)); if hash && k % 2 == 0 { c.tags.push("after-failed-read".into()); }
        let xx = format!("xxh3:{:016x}", xxhash_rust::xxh3::xxh3_64(&b));
        match &g { None => { for p in ["C01", "C04"] { c.fail(p, format!("well-formed replay rejected: {}", line)); } }
            Some(g) => {
                if line == "panic-in-dump" { c.fail("C04", "columns inconsistent: dump panicked"); } else { check_frames(&r, g, &mut c); }
                if hash { if g.hash.as_deref() != Some(xx.as_str()) { c.fail("C11", format!("hash {:?} != {}", g.hash, xx)); } } else if g.hash.is_some() { c.fail("C11", "hash reported though not requested"); }
            } }
        ctx.push(c);
        // the header understates the raw length by a few bytes (the declared end falls inside the final Game End event): the reader finishes the event it
        // is in, notes that it consumed more than declared, and goes on — same game, and the hash is still that of all the bytes read
        if k % 12 == 7 && r.end.is_some() && !r.double_end { let elen = r.end.as_ref().unwrap().len(); let d = 1 + (k / 12) % elen.max(1); let mut b2 = b.clone();
            let raw = u32::from_be_bytes([b2[11], b2[12], b2[13], b2[14]]); b2[11..15].copy_from_slice(&(raw - d as u32).to_be_bytes());
            let (l2, g2) = read_line(&b2, false, true);
            let mut c = Case::new(read_cmd(false, true, &b2), l2.clone()); c.tags = vec![format!("rawlen-understated:{}", d)];
            if let Some(g2) = &g2 { let xx2 = format!("xxh3:{:016x}", xxhash_rust::xxh3::xxh3_64(&b2)); if g2.hash.as_deref() != Some(xx2.as_str()) { c.fail("C11", format!("hash {:?} of a replay whose header understates the raw length by {} is not XXH3-64 of the file {}", g2.hash, d, xx2)); } }
            ctx.push(c); }
        // write back
        let (line2, or) = match &g { None => (line.clone(), None), Some(g) => match write_slp(g) { Ok(o) => (format!("ok {}", hex(&o)), (o != b).then(|| format!("write(read(x)) differs from x at byte {}", o.iter().zip(&b).position(|(a, b)| a != b).unwrap_or(o.len().min(b.len()))))), Err(e) => (e.clone(), Some(format!("write(read(x)) failed: {}", e))) } };
        let mut c = Case::new(format!("rt {}", hex(&b)), line2); c.tags = vec!["rt".into()];
        if let Some(m) = or { c.fail("C01", m.clone()); c.fail("C17", m); }
        // C16 on whole files: what follows the raw element (the metadata element, or its absence) is reproduced byte for byte
        if let (Some(g), true) = (&g, b.len() >= 15) { if let Ok(o) = write_slp(g) { let t = 15 + u32::from_be_bytes([b[11], b[12], b[13], b[14]]) as usize;
            if t <= b.len() && t <= o.len() && o[..t] == b[..t] && o[t..] != b[t..] { c.fail("C16", format!("the metadata element is not reproduced by the .slp writer ({} bytes after the raw element, {} in the original; Game End {})", o.len() - t, b.len() - t, if r.end.is_some() { "present" } else { "absent" })); }
            if g.metadata.is_some() != r.metadata.is_some() { c.fail("C16", "presence of the metadata element not reported as in the file"); } } }
        // the same game written into sinks that accept a few bytes per call (pipes, sockets, encoders), are interrupted, or fail
        if k % 4 == 2 { if let Some(g) = &g { if let Ok(o) = write_slp(g) {
            let kk = [1usize, 3, 5, 64, 300, 4096][(k / 4 + k / 28) % 6]; // (the second term breaks the lock-step with the container shapes, which repeat every 12 cases)
            let mut sink = crate::suites2::ShortSink::new(kk, None, if k % 8 == 2 { 3 } else { 0 });
            let got = std::panic::catch_unwind(std::panic::AssertUnwindSafe(|| slippi::write(&mut sink, g).map_err(|e| e.to_string())));
            match got { Ok(Ok(())) => { if sink.out != o { let m = format!(".slp written into a sink that takes {} bytes per call differs from the one written into a Vec (lengths {} vs {})", kk, sink.out.len(), o.len()); c.fail("C01", m.clone()); c.fail("C17", m.clone());
                    // the part after the raw element is the metadata element: its bytes are C16's
                    let t = 15 + u32::from_be_bytes([o[11], o[12], o[13], o[14]]) as usize; let d = sink.out.iter().zip(&o).position(|(a, b)| a != b).unwrap_or(sink.out.len().min(o.len())); if d >= t { c.fail("C16", m); } } }
                Ok(Err(e)) => { let m = format!(".slp writer fails on a sink that takes {} bytes per call: {}", kk, e); c.fail("C01", m.clone()); c.fail("C17", m); }
                Err(_) => { c.fail("C01", ".slp writer panicked on a short-writing sink"); c.fail("C17", ".slp writer panicked on a short-writing sink"); } }
            // the sink fails at a call somewhere between the first bytes and the last (header, table, start block, frame section, end, metadata)
            let calls = o.len() / 64 + 1; let mut bad = crate::suites2::ShortSink::new(64, Some(((k / 4) % 7) * calls / 7), 0);
            if let Ok(Ok(())) = std::panic::catch_unwind(std::panic::AssertUnwindSafe(|| slippi::write(&mut bad, g).map_err(|e| e.to_string()))) { c.fail("C17", "a write error injected into the sink did not surface from the .slp writer"); }
            // history: a write that failed part-way leaves nothing behind — the next write of the same game (same thread) gives the same bytes
            match write_slp(g) { Ok(o2) => if o2 != o { let m = format!("the .slp written after a failed write differs from the one written before it (lengths {} vs {})", o2.len(), o.len()); c.fail("C17", m.clone()); c.fail("C01", m); }, Err(e) => c.fail("C17", format!("write after a failed write fails: {}", e)) }
        } } }
        ctx.push(c);
        // skip-frames read of finished replays
        if r.end.is_some() && k % 2 == 0 {
            let (sl, gs) = read_line(&b, true, hash);
            let mut c = Case::new(read_cmd(true, hash, &b), sl.clone()); c.tags = tags.clone(); c.tags.push("skip1".into());
            match (&gs, &g) { (Some(gs), Some(g)) => {
                if start_json(&gs.start) != start_json(&g.start) || gs.start.bytes != g.start.bytes { c.fail("C10", "skip-frames: Game Start differs from full parse"); }
                if end_json(&gs.end) != end_json(&g.end) || gs.end.as_ref().map(|e| &e.bytes) != g.end.as_ref().map(|e| &e.bytes) { c.fail("C10", "skip-frames: Game End differs from full parse"); c.fail("C05", format!("Game End of a skip-frames read is not the replay's Game End block ({} bytes): {} vs {}", r.end.as_ref().map_or(0, |e| e.len()), end_json(&gs.end), end_json(&g.end))); }
                if gs.metadata != g.metadata { c.fail("C10", "skip-frames: metadata differs from full parse"); }
                if gs.frames.id.len() != 0 { c.fail("C10", format!("skip-frames: {} frames", gs.frames.id.len())); }
                { let lay = |f: &im::Frame| -> Vec<(u8, bool)> { f.ports.iter().map(|p| (p.port as u8, p.follower.is_some())).collect() };
                  if lay(&gs.frames) != lay(&g.frames) || gs.frames.start.is_some() != g.frames.start.is_some() || gs.frames.end.is_some() != g.frames.end.is_some() || gs.frames.item.is_some() != g.frames.item.is_some() {
                      c.fail("C10", format!("skip-frames: the empty frame set is not laid out like the game's (ports / followers {:?} vs {:?})", lay(&gs.frames), lay(&g.frames))); } }
                if hash { if gs.hash.as_deref() != Some(xx.as_str()) { c.fail("C11", format!("skip-frames hash {:?} != {}", gs.hash, xx)); } } else if gs.hash.is_some() { c.fail("C11", "hash reported though not requested"); }
                match write_slp(gs) { Err(e) => c.fail("C10", format!("skip-frames result cannot be written: {}", e)), Ok(y) => { let (l, g2) = read_line(&y, false, false); match g2 { None => c.fail("C10", format!("skip-frames result cannot be re-read: {}", l)),
                    Some(g2) => if start_json(&g2.start) != start_json(&g.start) || end_json(&g2.end) != end_json(&g.end) || g2.metadata != g.metadata { c.fail("C10", "re-read of the written skip-frames game differs in start/end/metadata") } } } }
              }
              (None, Some(_)) => { c.fail("C10", format!("skip-frames read of a finished replay failed: {}", sl)); c.fail("C05", format!("the skip-frames read does not find the Game End block ({} bytes) where it is: {}", r.end.as_ref().map_or(0, |e| e.len()), &sl[..sl.len().min(80)])); } _ => {} }
            ctx.push(c);
        }
        // two replays back to back on one reader (a container, a stream of games): each read consumes exactly its own replay — the reader stands
        // behind the closing brace afterwards — and the second read returns the second game
        if k % 6 == 3 { let (r2, _) = gen_replay(rng, k / 6, &go); let b2 = encode(&r2); let mut both = b.clone(); both.extend(&b2);
            for (skip, hsh) in [(false, false), (false, true), (true, false)] { if skip && (r.end.is_none() || r2.end.is_none()) { continue; }
                let o = read_opts(skip, hsh);
                let res = std::panic::catch_unwind(|| { let mut cur = Cursor::new(&both); let g1 = slippi::read(&mut cur, Some(&o)).map(|g| (dump::summary(&g), g.metadata.clone(), g.hash.clone())); let pos1 = cur.position() as usize;
                    let g2 = if g1.is_ok() { Some(slippi::read(&mut cur, Some(&o)).map(|g| (dump::summary(&g), g.metadata.clone(), g.hash.clone()))) } else { None }; (g1.map_err(|e| e.to_string()), pos1, g2.map(|x| x.map_err(|e| e.to_string())), cur.position() as usize) });
                let (s1, _) = read_line(&b, skip, false); let (s2, g2alone) = read_line(&b2, skip, false);
                let mut c = Case::new(format!("skipcase back-to-back {} {}", skip as u8, hsh as u8), String::new()); c.tags = vec![format!("back-to-back skip{} hash{}", skip as u8, hsh as u8)];
                match res { Err(_) => { c.impl_out = "panic".into(); c.fail("C06", "panic reading two replays back to back".to_string()); }
                    Ok((g1, pos1, g2, pos2)) => { c.impl_out = format!("pos {} {}", pos1, pos2);
                        match g1 { Err(e) => { if s1.starts_with("ok") { c.fail("C01", format!("first of two back-to-back replays rejected: {}", e)); } }
                            Ok((sum1, _, h1)) => { if dump::strip_hash(&sum1) != s1 { c.fail("C01", "first of two back-to-back replays reads differently than alone".to_string()); }
                                if hsh && h1.as_deref() != Some(format!("xxh3:{:016x}", xxhash_rust::xxh3::xxh3_64(&b)).as_str()) { c.fail("C11", format!("hash of the first of two back-to-back replays is {:?}", h1)); }
                                if pos1 != b.len() { let m = format!("after reading a replay of {} bytes (skip={}, hash={}) the reader stands at {}", b.len(), skip, hsh, pos1); c.fail("C01", m.clone()); c.fail("C16", m.clone()); c.fail("C12", m.clone()); if skip { c.fail("C10", m.clone()); } if hsh { c.fail("C11", m); } }
                                match g2 { Some(Ok((sum2, md2, h2))) => { if dump::strip_hash(&sum2) != s2 { c.fail("C01", "second of two back-to-back replays reads differently than alone".to_string()); }
                                        if g2alone.as_ref().map(|g| &g.metadata) != Some(&md2) { c.fail("C16", "metadata of the second of two back-to-back replays differs".to_string()); }
                                        if hsh && h2.as_deref() != Some(format!("xxh3:{:016x}", xxhash_rust::xxh3::xxh3_64(&b2)).as_str()) { c.fail("C11", format!("hash of the second of two back-to-back replays is {:?}", h2)); } }
                                    Some(Err(e)) => { if s2.starts_with("ok") { let m = format!("second of two back-to-back replays rejected: {}", e); c.fail("C01", m.clone()); c.fail("C16", m); } } None => {} } } } } }
                ctx.push(c); } }
        // the debug option (event payloads dumped into a directory) changes nothing about the result
        if k % 10 == 4 {
            let dir = std::env::temp_dir().join(format!("pv-debug-{}-{}", std::process::id(), k)); let _ = std::fs::remove_dir_all(&dir);
            for (skip, hsh) in [(false, k % 20 == 4), (true, k % 20 == 14)] { if skip && r.end.is_none() { continue; }
                let o = slippi::de::Opts { skip_frames: skip, compute_hash: hsh, debug: Some(slippi::de::Debug { dir: dir.clone() }) };
                let res = std::panic::catch_unwind(|| slippi::read(Cursor::new(&b), Some(&o)));
                let dl = match res { Err(_) => "panic".to_string(), Ok(Err(e)) => format!("err {}", e), Ok(Ok(g)) => { let mut s = dump::summary(&g); s } };
                let (plain, _) = read_line(&b, skip, hsh);
                let mut c = Case::new(read_cmd(skip, hsh, &b), dl.clone()); c.tags = vec![format!("debug-opt skip{}", skip as u8)];
                if dl != plain { let m = format!("read with the debug option (skip={}, hash={}) differs from the read without it: {} vs {}", skip, hsh, &dl[..dl.len().min(100)], &plain[..plain.len().min(100)]); for p in ["C01", "C04", "C06", "C12"] { c.fail(p, m.clone()); } if skip { c.fail("C10", m.clone()); } if hsh { c.fail("C11", m); } }
                ctx.push(c); }
            let _ = std::fs::remove_dir_all(&dir);
        }
        // the same reads from a source positioned behind foreign bytes (and followed by more): nothing may change
        if k % 4 == 1 {
            let pre = [1usize, 15, 37, 512, 4096][(k / 4) % 5]; let post = [0usize, 1, 600][(k / 20) % 3];
            for (skip, hsh) in [(false, false), (false, true), (true, false), (true, true)] {
                if skip && r.end.is_none() { continue; }
                let at = read_line_at(&b, skip, hsh, pre, post);
                let (zero, _) = read_line(&b, skip, hsh);
                let mut c = Case::new(read_cmd(skip, hsh, &b), at.clone()); c.tags = vec![format!("offset-read skip{} hash{}", skip as u8, hsh as u8)];
                if at != zero { let msg = format!("read from stream position {} (skip={}, hash={}) differs from the read at position 0: {} vs {}", pre, skip, hsh, &at[..at.len().min(120)], &zero[..zero.len().min(120)]);
                    if skip { c.fail("C10", msg.clone()); } if hsh { c.fail("C11", msg.clone()); } if !skip { c.fail("C01", msg.clone()); c.fail("C03", msg.clone()); c.fail("C04", msg.clone()); c.fail("C17", format!("a canonical (written) file does not read back the same from stream position {}: {}", pre, &msg[..msg.len().min(160)])); c.fail("C16", msg.clone()); } c.fail("C05", msg.clone()); c.fail("C12", msg); }
                ctx.push(c);
            }
        }
    }
}

fn ver(rng: &mut Rng, ctx: &mut Ctx) {
    let thresholds = [(0,0),(0,1),(0,255),(1,255),(254,255),(255,0),(255,1),(255,128),(255,255),(128,0),(0,2),(1,0),(1,2),(1,3),(1,4),(1,5),(2,0),(2,1),(2,2),(3,0),(3,2),(3,3),(3,5),(3,6),(3,7),(3,8),(3,9),(3,10),(3,11),(3,12),(3,13),(3,14),(3,15),(3,16)];
    let one = |a: u8, b: u8, m: u8, mi: u8, ctx: &mut Ctx| {
        let v = slippi::Version(a, b, [0u8, 1, 7, 24, 255, 31][(a as usize + b as usize + m as usize + mi as usize) % 6]); let exp = (a, b) >= (m, mi); /* the patch component never matters */
        let (got, lt) = match std::panic::catch_unwind(|| (v.gte(m, mi), v.lt(m, mi))) { Ok(x) => x,
            Err(_) => { let mut c = Case::new(format!("gte {} {} {} {}", a, b, m, mi), "panic".into()); c.tags = vec!["gte".into()]; c.fail("C20", format!("gte/lt({},{}) on {}.{} panicked: the comparison is not total", m, mi, a, b)); ctx.push(c); return; } };
        let mut c = Case::new(format!("gte {} {} {} {}", a, b, m, mi), format!("{} {}", got, lt)); c.tags = vec!["gte".into(), if m == 255 || m == 0 || mi == 255 || mi == 0 { "extreme-threshold".into() } else { "gate-threshold".into() }];
        if got != exp || lt == got { c.fail("C20", format!("gte({},{}) on {}.{} = {}, lt = {}", m, mi, a, b, got, lt)); }
        ctx.push(c);
    };
    if ctx.thorough { for a in 0..=255u8 { for b in 0..=255u8 { for (m, mi) in thresholds { if (a as i32 - m as i32).abs() <= 1 || b == mi || a == 255 || (a as usize * 256 + b as usize) % 97 == 0 { one(a, b, m, mi, ctx); } } } } }
    else { for (m, mi) in thresholds { for (a, b) in [(m, mi), (m, mi.wrapping_sub(1)), (m, mi.saturating_add(1)), (m.wrapping_sub(1), 255), (m.saturating_add(1), 0), (m, 0), (m, 255), (0, 0), (255, 255), (m.saturating_add(1), mi.wrapping_sub(1)), (m.wrapping_sub(1), mi.saturating_add(1))] { one(a, b, m, mi, ctx); } } }
    for k in 0..ctx.n {
        let (a, b) = ((rng.next() >> 8) as u8, (rng.next() >> 8) as u8);
        let (m, mi) = if k % 2 == 0 { thresholds[k % thresholds.len()] } else { ((rng.next() >> 8) as u8, (rng.next() >> 8) as u8) };
        one(if k % 3 == 0 { m } else { a }, b, m, mi, ctx);
        let v = slippi::Version(a, b, (rng.next() >> 8) as u8);
        let s = v.to_string(); let back = slippi::Version::from_str(&s);
        let mut c = Case::new(format!("vdisplay {} {} {}", v.0, v.1, v.2), s.clone()); c.tags = vec!["display".into()];
        if back.as_ref().ok() != Some(&v) { c.fail("C20", format!("parse(display({:?})) = {:?}", v, back.ok())); }
        if s != format!("{}.{}.{}", v.0, v.1, v.2) { c.fail("C20", format!("display({:?}) = {}", v, s)); }
        let pv = peppi::io::peppi::Version(v.0, v.1, v.2); let ps = pv.to_string();
        if peppi::io::peppi::Version::from_str(&ps).ok() != Some(pv) || ps != s { c.fail("C20", format!("peppi format version display/parse {:?} -> {}", pv, ps)); }
        ctx.push(c);
    }
    let pool = ["3.16.0", "+3.016.0", "3.16", "3.16.256", "3.-1.2", "", "..", "1..2", "1.2.3.", ".1.2.3", "+.1.2", "1.+.2", "-0.1.2", " 1.2.3", "1.2.3 ", "0256.1.1", "0000000255.+0.00", "1.2.3.4", "255.255.255", "+1.+2.+3", "++1.2.3", "1e1.2.3", "0x1.2.3", "1,2,3", "1.2.3\n", "256.0.0", "0.256.0", "1.2.-3", "٣.1.2", "1.2.3", "1 .2.3", "1.2", "1", "a.b.c", "1.2.c", "1.2.", "999.1.1", "0.0.0", "00.00.00", "1.2.3.4.5", "1..3", "-1.2.3", "1.2.+", "+", "1.２.3"];
    let mut strs: Vec<String> = pool.iter().map(|s| s.to_string()).collect();
    for _ in 0..(ctx.n / 4).max(40) { // random mutations of valid strings
        let mut s: Vec<char> = format!("{}.{}.{}", rng.next() % 300, rng.next() % 300, rng.next() % 300).chars().collect();
        for _ in 0..(rng.next() % 3) { let i = (rng.next() as usize) % (s.len() + 1); match rng.next() % 4 { 0 => { if i < s.len() { s.remove(i); } } 1 => s.insert(i, ['.', '+', '-', ' ', '0', '9', 'x'][(rng.next() % 7) as usize]), 2 => { if i < s.len() { s[i] = ['.', '5', '+'][(rng.next() % 3) as usize]; } } _ => {} } }
        strs.push(s.into_iter().collect());
    }
    // long strings with multi-byte characters at every byte offset around typical buffer / excerpt sizes, in each component and as a
    // fourth component; long digit runs; non-ASCII digits
    for &at in &[7usize, 8, 15, 16, 23, 24, 31, 32, 33, 47, 48, 63, 64, 65, 79, 80, 127, 128, 255, 256] { for ch in ["é", "€", "😀", "٣"] { for shape in 0..4 {
        let pad = |n: usize, c: char| -> String { std::iter::repeat(c).take(n).collect() };
        strs.push(match shape { 0 => format!("{}{}", pad(at.saturating_sub(1), '9'), ch), 1 => format!("3.16.{}{}tail", pad(at.saturating_sub(6), '0'), ch), 2 => format!("1.2.3.{}{}", pad(at.saturating_sub(7), 'x'), ch), _ => format!("{}{}.0.0", pad(at.saturating_sub(2), '1'), ch) }); } } }
    for n in [4usize, 20, 40, 100, 300] { strs.push(format!("{}.1.1", "0".repeat(n))); strs.push(format!("1.{}.1", "9".repeat(n))); strs.push(format!("{}1.2.3", "+".repeat(n.min(3)))); strs.push("1.".repeat(n)); }
    for s in strs.iter() {
        let both = std::panic::catch_unwind(|| (slippi::Version::from_str(s).map(|v| (v.0, v.1, v.2)).map_err(|_| ()), peppi::io::peppi::Version::from_str(s).map(|v| (v.0, v.1, v.2)).map_err(|_| ())));
        let (r, p) = match both { Ok(x) => x, Err(_) => { let mut c = Case::new(format!("vparse {}", hex(s.as_bytes())), "panic".into()); c.fail("C20", format!("version parser panicked on {:?}", s)); ctx.push(c); continue; } };
        let show = |r: Result<(u8,u8,u8), ()>| match r { Ok(v) => format!("ok {} {} {}", v.0, v.1, v.2), Err(_) => "err".to_string() };
        let a = show(r); let b = show(p);
        let mut c = Case::new(format!("vparse {}", hex(s.as_bytes())), a.clone()); c.tags = vec!["parse".into()];
        if a != b { c.fail("C20", format!("peppi format version parser differs on {:?}: {} vs {}", s, b, a)); }
        // independent reading of "three dot-separated integers in 0..255" (optional '+', ASCII digits)
        let parts: Vec<&str> = s.split('.').collect();
        let lit = |t: &str| -> Option<u8> { let t = t.strip_prefix('+').unwrap_or(t); if t.is_empty() || !t.bytes().all(|c| c.is_ascii_digit()) { return None; } let t = t.trim_start_matches('0'); if t.len() > 3 { return None; } let x: u32 = if t.is_empty() { 0 } else { t.parse().ok()? }; (x <= 255).then(|| x as u8) };
        let exp = if parts.len() == 3 { match (lit(parts[0]), lit(parts[1]), lit(parts[2])) { (Some(x), Some(y), Some(z)) => format!("ok {} {} {}", x, y, z), _ => "err".into() } } else { "err".into() };
        if a != exp { c.fail("C20", format!("parse({:?}) = {}, expected {}", s, a, exp)); }
        ctx.push(c);
    }
}

fn roll(rng: &mut Rng, ctx: &mut Ctx) {
    use arrow2::array::PrimitiveArray;
    for k in 0..ctx.n {
        let len = if ctx.thorough && k % 10 == 0 { (rng.next() % 300) as usize } else { (rng.next() % 14) as usize };
        let mut ids: Vec<i32> = vec![]; let mut cur = -123i32;
        for _ in 0..len { match rng.next() % 6 { 0 => {} 1 => cur -= (rng.next() % 4) as i32, 2 => cur += (rng.next() % 5) as i32, _ => cur += 1 } if cur < -123 { cur = -123; } ids.push(cur); }
        if k % 25 == 24 && !ids.is_empty() { let i = (rng.next() as usize) % ids.len(); ids[i] = [2000, 100000, 30000][(rng.next() % 3) as usize]; }
        // rollbacks of every depth around small-table boundaries: a run, a jump back by `d`, the window replayed (and once more for some)
        if k % 5 == 2 { let d = [1i32, 2, 6, 7, 8, 9, 15, 16, 17, 31, 32, 33, 63, 64, 65, 127, 128, 129, 255, 256, 257][(k / 5) % 21]; let pre = (rng.next() % 4) as i32; let extra = (rng.next() % 3) as i32;
            ids = (-123..-123 + pre + d).collect(); let top = -123 + pre + d; ids.extend(top - d..top + extra); if k % 10 == 7 { ids.extend(top - d..top - d + 1 + (rng.next() % 3) as i32); } }
        // one frame id carried by very many rows (around the widths of small counters), among others
        if k % 20 == 11 { let m = [255usize, 256, 257, 300, 65, 128][(k / 20) % 6]; ids = vec![-123, -122]; ids.extend(std::iter::repeat(-121).take(m)); ids.extend([-120, -121, -119]); }
        if k % 40 == 39 { ids.reverse(); }
        // the same table numbered far from -123 (the tail of a very long game, a renumbered table, a file with large Frame Start ids): every id
        // shifted by one base, or only the ids from some row on (so that the table straddles the base), around powers of two up to 2^26
        if k % 8 == 5 && !ids.is_empty() { let p = if k < 1600 { [16u32, 20, 22, 23, 24, 26, 21, 18][(k / 8) % 8] } else { [16u32, 18, 17, 19][(k / 8) % 4] }; /* (tables of 2^20+ entries only near the start of a shard) */ let base = (1i32 << p) - [0, 1, 123, 124, 200][(k / 64) % 5];
            let from = if (k / 8) % 3 == 2 { ids.len() / 2 } else { 0 }; let lo = ids[from..].iter().copied().min().unwrap_or(-123);
            for x in ids[from..].iter_mut() { *x = *x - lo + base + (k % 3) as i32 - 1; } }
        // the extreme id needs a 2 GiB table: only in the thorough tier
        if ctx.thorough && k == 7 { ids = vec![i32::MAX, -123, i32::MAX]; }
        // the mask is a function of the id column alone: the other columns are present in every other case (as in a game of version 2.2+ / 3.0+)
        let n = ids.len();
        let frame = im::Frame { id: PrimitiveArray::from_vec(ids.clone()), ports: vec![],
            start: if k % 2 == 1 { Some(im::Start { random_seed: PrimitiveArray::from_vec(vec![7u32; n]), scene_frame_counter: if k % 4 == 1 { Some(PrimitiveArray::from_vec(vec![0u32; n])) } else { None }, validity: None }) } else { None },
            end: if k % 4 == 3 { Some(im::End { latest_finalized_frame: Some(PrimitiveArray::from_vec(vec![-123i32; n])), validity: None }) } else { None }, item_offset: None, item: None };
        for (mode, name) in [(Rollbacks::ExceptFirst, "first"), (Rollbacks::ExceptLast, "last")] {
            let got = std::panic::catch_unwind(|| frame.rollbacks(mode));
            let exp: Vec<bool> = (0..ids.len()).map(|i| if name == "first" { (0..i).any(|j| ids[j] == ids[i]) } else { (i+1..ids.len()).any(|j| ids[j] == ids[i]) }).collect();
            let extreme = ids.iter().any(|x| *x > 1_000_000);
            let mut c = Case::new(format!("{} {} {}", if extreme { "rollx" } else { "roll" }, name, if ids.is_empty() { String::new() } else { ids.iter().map(|x| x.to_string()).collect::<Vec<_>>().join(",") }), String::new());
            c.tags = vec![format!("len{}", len.min(6)), format!("repeats{}", exp.iter().filter(|b| **b).count().min(4)), format!("maxid:2^{}", ids.iter().copied().max().map_or(0, |m| if m <= 0 { 0 } else { 32 - (m as u32).leading_zeros() }))];
            match got { Err(_) => { c.impl_out = "panic".into(); c.fail("C15", "rollbacks() panicked on ids >= -123"); }
                Ok(m) => { c.impl_out = format!("ok {}", m.iter().map(|b| if *b { '1' } else { '0' }).collect::<String>()); if m != exp { c.fail("C15", format!("mask {:?} != reference {:?} for ids {:?}", m, exp, ids)); } } }
            ctx.push(c);
        }
    }
    // call sequences on one thread: a long game, a run of calls on short games (lengths around small counter widths), the long game again —
    // the mask of a game does not depend on what was asked before
    let long: Vec<i32> = (-123..300).chain(250..320).collect();
    let reference = |ids: &[i32], first: bool| -> Vec<bool> { let mut seen = std::collections::HashSet::new(); let mut out = vec![false; ids.len()]; let order: Vec<usize> = if first { (0..ids.len()).collect() } else { (0..ids.len()).rev().collect() }; for i in order { out[i] = !seen.insert(ids[i]); } out };
    for run in [0usize, 253, 254, 255, 256, 257, 511, 512] { for (mode, first) in [(Rollbacks::ExceptFirst, true), (Rollbacks::ExceptLast, false)] {
        let mk = |ids: &[i32]| im::Frame { id: PrimitiveArray::from_vec(ids.to_vec()), ports: vec![], start: None, end: None, item_offset: None, item: None };
        let res = std::panic::catch_unwind(|| { let lf = mk(&long); let a = lf.rollbacks(mode); for j in 0..run { let short: Vec<i32> = (-123..-120 + (j % 5) as i32).chain(-122..-121).collect(); let _ = mk(&short).rollbacks(mode); } let b = lf.rollbacks(mode); (a, b) });
        let exp = reference(&long, first);
        let mut c = Case::new(format!("rollseq {} {}", if first { "first" } else { "last" }, run), String::new()); c.tags = vec![format!("rollseq{}", run)];
        match res { Err(_) => { c.impl_out = "panic".into(); c.fail("C15", "rollbacks() panicked in a call sequence"); }
            Ok((a, b)) => { c.impl_out = format!("ok {} {}", a == exp, b == exp); if a != exp { c.fail("C15", "mask of the long game differs from the reference (first call)"); }
                if b != exp { c.fail("C15", format!("mask of a game asked again after {} calls on other games differs from the reference ({} rows differ)", run, b.iter().zip(&exp).filter(|(x, y)| x != y).count())); } } }
        ctx.push(c); } }
    // a call on a table outside the function's domain (an id below -123, met after some valid rows: the call panics) and then, on the same thread,
    // a valid table that shares ids with the rows visited before the panic: its mask is its own
    for (vi, bad) in [vec![-123i32, -122, -121, -124], vec![-120, -119, -125, -118], vec![5, 6, 7, 7, -200]].into_iter().enumerate() { for (mode, first) in [(Rollbacks::ExceptFirst, true), (Rollbacks::ExceptLast, false)] {
        let mk = |ids: &[i32]| im::Frame { id: PrimitiveArray::from_vec(ids.to_vec()), ports: vec![], start: None, end: None, item_offset: None, item: None };
        let good: Vec<i32> = if vi == 2 { vec![4, 5, 6, 7, 8] } else { vec![-123, -122, -121, -120, -119, -118] };
        let _ = std::panic::catch_unwind(|| mk(&bad).rollbacks(mode));
        let got = std::panic::catch_unwind(|| mk(&good).rollbacks(mode)); let exp = reference(&good, first);
        let mut c = Case::new(format!("rollseq {} afterpanic{}", if first { "first" } else { "last" }, vi), String::new()); c.tags = vec!["rollseq-after-panic".into()];
        match got { Err(_) => { c.impl_out = "panic".into(); c.fail("C15", "rollbacks() panicked on ids >= -123 (after a call on another table that panicked)"); }
            Ok(m) => { c.impl_out = format!("ok {}", m == exp); if m != exp { c.fail("C15", format!("after a call that panicked part-way (ids {:?}), the mask of a valid table on the same thread is {:?}, reference {:?}", bad, m, exp)); } } }
        ctx.push(c); } }
    // long tables: a frame sent again (or a rollback of two frames) with the repeated rows exactly on either side of a row index that is a power of
    // two (an implementation that walks the column in blocks), among thousands of consecutive ids
    for (bi, b) in [64usize, 128, 256, 512, 1024, 2048, 4096, 1024, 2048].into_iter().enumerate() { for (mode, first) in [(Rollbacks::ExceptFirst, true), (Rollbacks::ExceptLast, false)] {
        let back = if bi >= 7 { 2 } else { 1 }; let mut ids: Vec<i32> = (0..b as i32).map(|i| -123 + i).collect(); let top = *ids.last().unwrap(); ids.extend((0..back + 300).map(|j| top - back + 1 + j));
        let frame = im::Frame { id: PrimitiveArray::from_vec(ids.clone()), ports: vec![], start: None, end: None, item_offset: None, item: None };
        let got = std::panic::catch_unwind(|| frame.rollbacks(mode)); let exp = reference(&ids, first);
        let mut c = Case::new(format!("roll {} {}", if first { "first" } else { "last" }, ids.iter().map(|x| x.to_string()).collect::<Vec<_>>().join(",")), String::new()); c.tags = vec![format!("block-boundary:{}:{}", b, back)];
        match got { Err(_) => { c.impl_out = "panic".into(); c.fail("C15", "rollbacks() panicked on a long table"); }
            Ok(m) => { c.impl_out = format!("ok {}", m.iter().map(|b| if *b { '1' } else { '0' }).collect::<String>()); if m != exp { let bad: Vec<usize> = (0..m.len()).filter(|&i| m[i] != exp[i]).collect(); c.fail("C15", format!("table of {} rows with a frame sent again at row {}: the mask differs from the reference at rows {:?}", ids.len(), b, &bad[..bad.len().min(6)])); } } }
        ctx.push(c); } }
    // the id column edited in place between two calls of the same mode (arrow2's own `get_mut_values`), length, first and last id unchanged; and a game
    // dropped, then another of the same size with the same first and last id built (and likely placed where the first one was): the mask is a function of
    // the ids that are there now
    for variant in 0..6usize { for (mode, first) in [(Rollbacks::ExceptFirst, true), (Rollbacks::ExceptLast, false)] {
        let n = [8usize, 40, 300, 1030, 9, 64][variant];
        let ids_a: Vec<i32> = (0..n as i32).map(|i| -123 + i - if i as usize > n / 2 { 2 } else { 0 }).collect();           // one rollback of two frames in the middle
        let mut ids_b: Vec<i32> = (0..n as i32).map(|i| -123 + i).collect(); let last = *ids_a.last().unwrap(); *ids_b.last_mut().unwrap() = last; ids_b[n / 3] = ids_b[n / 3 - 1]; // other repeats, same ends
        let res = std::panic::catch_unwind(|| {
            let mut f = im::Frame { id: PrimitiveArray::from_vec(ids_a.clone()), ports: vec![], start: None, end: None, item_offset: None, item: None };
            let a = f.rollbacks(mode);
            let b = if variant % 2 == 0 { if let Some(v) = f.id.get_mut_values() { v.copy_from_slice(&ids_b); } else { f.id = PrimitiveArray::from_vec(ids_b.clone()); } f.rollbacks(mode) }
                else { drop(f); let g = im::Frame { id: PrimitiveArray::from_vec(ids_b.clone()), ports: vec![], start: None, end: None, item_offset: None, item: None }; g.rollbacks(mode) };
            (a, b) });
        let (ea, eb) = (reference(&ids_a, first), reference(&ids_b, first));
        let mut c = Case::new(format!("rollseq {} edit{}", if first { "first" } else { "last" }, variant), String::new()); c.tags = vec![format!("rollseq-{}", if variant % 2 == 0 { "edited-in-place" } else { "dropped-and-rebuilt" })];
        match res { Err(_) => { c.impl_out = "panic".into(); c.fail("C15", "rollbacks() panicked in a call sequence"); }
            Ok((a, b)) => { c.impl_out = format!("ok {} {}", a == ea, b == eb); if a != ea { c.fail("C15", "mask differs from the reference (first call)"); }
                if b != eb { c.fail("C15", format!("second call of the same mode on {} of {} rows: the mask is not the one of the ids that are there now ({} rows differ)", if variant % 2 == 0 { "an id column edited in place" } else { "a new game of the same size built after the first was dropped" }, n, b.iter().zip(&eb).filter(|(x, y)| x != y).count())); } } }
        ctx.push(c); } }
}

fn arrow(rng: &mut Rng, ctx: &mut Ctx) {
    use peppi::game::port_occupancy;
    let go = GenOpts { max_frames: if ctx.thorough { 30 } else { 8 }, newer: false, force: None };
    for k in 0..ctx.n {
        let (mut r, mut tags) = gen_replay(rng, k, &go);
        // the recorded finding (no occupied port) is exercised in every run, deterministically, as the first case
        if k == 0 { r = simple((3, 16, 0), &[], 2, &[], rng); }
        if r.frames.is_empty() { continue; }
        let b = encode(&r);
        let zero_ports = slots_of(&r.start_block).is_empty();
        let res = std::panic::catch_unwind(|| {
            let g = slippi::read(Cursor::new(&b), None).map_err(|e| format!("err {}", e))?;
            let ports = port_occupancy(&g.start); let ver = g.start.slippi.version;
            let start = g.start.clone(); let (end, md, gc, q) = (g.end, g.metadata, g.gecko_codes, g.quirks);
            let n = g.frames.id.len();
            let sa = g.frames.into_struct_array(ver, &ports);
            let rows = arrow2::array::Array::len(&sa);
            let d = crate::arrowdump::dump(&sa);
            let mut lv = vec![]; crate::arrowdump::leaves("", arrow2::array::Array::data_type(&sa), &mut lv);
            // a window of the exported array imported on its own (item offsets that do not start at 0): its row view must equal its columns
            // and the rows of the whole game at the same positions
            let mut win_err: Option<String> = None;
            let f2 = im::Frame::from_struct_array(sa.clone(), ver);
            if n >= 2 { let from = 1 + (k % (n - 1)); let len = n - from;
                let fw = im::Frame::from_struct_array(sa.clone().sliced(from, len), ver);
                for i in 0..len { let t = fw.transpose_one(i, ver);
                    if let Err(e) = compare_view(&t, &fw, i) { win_err = Some(format!("window [{}..{}) of the exported array, row {}: {}", from, n, i, e)); break; }
                    if format!("{:?}", t) != format!("{:?}", f2.transpose_one(from + i, ver)) { win_err = Some(format!("window [{}..{}) of the exported array: row {} differs from row {} of the whole game", from, n, i, from + i)); break; } } }
            // columns edited in memory (not produced by a reader): an item column with a validity bitmap that marks some entries as null, a start / end
            // column likewise — the row view still shows, for every frame, exactly the entries its offsets delimit, with the values stored in the columns
            if k % 4 == 2 { let mut fe = im::Frame::from_struct_array(sa.clone(), ver);
                if let Some(it) = fe.item.as_mut() { let m = it.r#type.len(); if m > 0 { let bits: Vec<bool> = (0..m).map(|j| (j + k / 4) % 3 != 0).collect(); it.validity = Some(arrow2::bitmap::Bitmap::from(bits)); } }
                for i in 0..n { let t = match std::panic::catch_unwind(std::panic::AssertUnwindSafe(|| fe.transpose_one(i, ver))) { Ok(t) => t, Err(_) => { win_err = Some(format!("row view of frame {} panics when the item column carries a validity bitmap", i)); break; } };
                    if let Err(e) = compare_view(&t, &fe, i) { win_err = Some(format!("item column with a validity bitmap: {}", e)); break; } } }
            // a leaf column whose own validity bitmap marks rows as null although values are stored there (an array masked by the user, or written by
            // another Arrow producer): the row view shows the values stored at that index
            if k % 4 == 3 && n > 0 { let mut fe = im::Frame::from_struct_array(sa.clone(), ver);
                if let Some(p) = fe.ports.first_mut() { let bits: Vec<bool> = (0..n).map(|j| (j + k / 4) % 2 == 1).collect();
                    p.leader.pre.random_seed = p.leader.pre.random_seed.clone().with_validity(Some(arrow2::bitmap::Bitmap::from(bits.clone())));
                    p.leader.post.stocks = p.leader.post.stocks.clone().with_validity(Some(arrow2::bitmap::Bitmap::from(bits))); }
                for i in 0..n.min(4) { let t = match std::panic::catch_unwind(std::panic::AssertUnwindSafe(|| fe.transpose_one(i, ver))) { Ok(t) => t, Err(_) => { win_err = Some(format!("row view of frame {} panics when a leaf column carries a validity bitmap", i)); break; } };
                    if let Err(e) = compare_view(&t, &fe, i) { win_err = Some(format!("leaf column with a validity bitmap: {}", e)); break; } } }
            let mut g2 = Game { start, end, frames: f2, metadata: md, gecko_codes: gc, hash: None, quirks: q };
            let mut o = vec![]; let w = slippi::write(&mut o, &g2);
            // a frame table whose ports are listed in another order (built by a user, not by a reader): export / import keeps the order
            if g2.frames.ports.len() >= 2 && k % 3 == 1 {
                g2.frames.ports.reverse(); let mut pr: Vec<_> = ports.iter().rev().cloned().collect(); if k % 2 == 0 { pr.rotate_left(1); g2.frames.ports.rotate_left(1); }
                let mut want = vec![]; let ww = slippi::write(&mut want, &g2);
                let order: Vec<u8> = g2.frames.ports.iter().map(|p| p.port as u8).collect();
                let sa2 = std::mem::replace(&mut g2.frames, im::Frame::from_struct_array(sa.clone(), ver)).into_struct_array(ver, &pr);
                let back = im::Frame::from_struct_array(sa2, ver);
                let order2: Vec<u8> = back.ports.iter().map(|p| p.port as u8).collect();
                g2.frames = back; let mut got = vec![]; let wg = slippi::write(&mut got, &g2);
                if order2 != order || ww.is_ok() != wg.is_ok() || (ww.is_ok() && want != got) { win_err = Some(format!("ports listed as {:?}: after export and import they are {:?} / the written file differs", order, order2)); }
                // the row view of such a frame table lists the ports in the order of the columns, each with its own column's values
                for i in 0..n.min(4) { let t = g2.frames.transpose_one(i, ver); if let Err(e) = compare_view(&t, &g2.frames, i) { win_err = Some(format!("ports listed as {:?}: {}", order, e)); break; } }
            }
            // a frame table that records a character's absence only where the .slp writer looks for it — the bitmap of the leader / follower struct — and
            // not in the nested pre / post structs (a user-built table; an Arrow producer that masks only the outer struct): export and import keep it
            if k % 3 != 1 { let mut fe = im::Frame::from_struct_array(sa.clone(), ver); let mut stripped = false;
                for p in fe.ports.iter_mut() { for d in std::iter::once(&mut p.leader).chain(p.follower.iter_mut()) { if d.validity.is_some() { d.pre.validity = None; d.post.validity = None; stripped = true; } } }
                if stripped { let mut want = vec![]; let g3 = Game { start: g2.start.clone(), end: g2.end.clone(), frames: fe, metadata: g2.metadata.clone(), gecko_codes: None, hash: None, quirks: g2.quirks };
                    let ww = slippi::write(&mut want, &Game { gecko_codes: g2.gecko_codes.as_ref().map(|c| peppi::game::GeckoCodes { bytes: c.bytes.clone(), actual_size: c.actual_size }), ..g3 });
                    let fe2 = { let mut f = im::Frame::from_struct_array(sa.clone(), ver); for p in f.ports.iter_mut() { for d in std::iter::once(&mut p.leader).chain(p.follower.iter_mut()) { if d.validity.is_some() { d.pre.validity = None; d.post.validity = None; } } } f };
                    let back = im::Frame::from_struct_array(fe2.into_struct_array(ver, &ports), ver);
                    let mut got = vec![]; let wg = slippi::write(&mut got, &Game { start: g2.start.clone(), end: g2.end.clone(), frames: back, metadata: g2.metadata.clone(), gecko_codes: g2.gecko_codes.as_ref().map(|c| peppi::game::GeckoCodes { bytes: c.bytes.clone(), actual_size: c.actual_size }), hash: None, quirks: g2.quirks });
                    if ww.is_ok() != wg.is_ok() || (ww.is_ok() && want != got) { win_err = Some(format!("absence recorded only in the leader / follower bitmap (nested pre / post bitmaps unset): after export and import the written file differs ({} vs {} bytes)", got.len(), want.len())); } } }
            // a frame table that carries a column its version does not have (edited in memory; imported from an archive whose columns disagree with the
            // declared version): the row view goes by the version — Frame Start below 2.2, Frame End below 3.0 are reported as absent
            if !gte(r.v, 3, 0) && k % 2 == 0 { let mut fe = im::Frame::from_struct_array(sa.clone(), ver);
                if !gte(r.v, 2, 2) { fe.start = Some(im::Start { random_seed: arrow2::array::PrimitiveArray::from_vec(vec![7u32; n]), scene_frame_counter: None, validity: None }); }
                fe.end = Some(im::End { latest_finalized_frame: Some(arrow2::array::PrimitiveArray::from_vec(vec![-123i32; n])), validity: None });
                for i in 0..n.min(3) { match std::panic::catch_unwind(std::panic::AssertUnwindSafe(|| fe.transpose_one(i, ver))) { Err(_) => { win_err = Some("row view panics on a frame table with a column the version does not have".into()); break; }
                    Ok(t) => { if (!gte(r.v, 2, 2) && t.start.is_some()) || t.end.is_some() { win_err = Some(format!("row view of a {:?} game reports start={} end={} (columns present in memory, absent at that version)", r.v, t.start.is_some(), t.end.is_some())); break; } } } } }
            if let Some(e) = win_err { return Err(format!("WINDOW {}", e)); }
            // every exported per-character column, addressed by NAME, holds the values the spec puts at that field's offset in the
            // occurrence of that frame (independent of the in-memory representation and of the import side)
            { let tpl = slots_of(&r.start_block); let v = r.v;
              for (ci, (port, fol)) in tpl.iter().enumerate() { for (kind, table) in [("pre", spec::PRE), ("post", spec::POST)] {
                  let vis: Vec<&spec::F> = table.iter().filter(|x| gte(v, x.since.0, x.since.1)).collect();
                  for (fi, f) in vis.iter().enumerate() { let path = format!("ports.P{}.{}.{}.{}", port + 1, if *fol { "follower" } else { "leader" }, kind, f.name);
                      let col = match crate::arrowdump::leaf_values(&sa, &path) { Some(c) => c, None => return Err(format!("BYNAME exported array has no primitive column {}", path)) };
                      for (i, fr) in r.frames.iter().enumerate() { if let Some(ev) = &fr.chars[ci].2 {
                          let mut pay = fr.id.to_be_bytes().to_vec(); pay.push(*port); pay.push(*fol as u8); pay.extend(if kind == "pre" { &ev.pre } else { &ev.post });
                          let e = spec::decode(table, v, &pay)[fi];
                          if col.get(i) != Some(&e) { return Err(format!("BYNAME exported column {} row {} is {:?}, the field's value in that frame is {}", path, i, col.get(i), e)); } } } } } } }
            // the schema is a function of the version *argument* (and the ports): the same frames exported at an older layout — a consumer that wants the
            // columns of 2.0 from a 3.x game — have exactly that version's field table, whatever optional columns the data carries
            { let cands: Vec<(u8, u8, u8)> = [(0u8, 1u8, 0u8), (1, 0, 0), (2, 0, 1), (2, 2, 0), (2, 9, 9), (3, 0, 0), (3, 6, 0), (3, 7, 0), (3, 12, 0)].into_iter().filter(|c| *c < r.v).collect();
              if !cands.is_empty() { let ov = cands[(k / 2) % cands.len()];
                  let g3 = slippi::read(Cursor::new(&b), None).map_err(|e| format!("err {}", e))?;
                  let sa3 = g3.frames.into_struct_array(slippi::Version(ov.0, ov.1, ov.2), &ports);
                  let mut lv3 = vec![]; crate::arrowdump::leaves("", arrow2::array::Array::data_type(&sa3), &mut lv3);
                  let exp3 = spec::arrow_leaves(ov, &slots_of(&r.start_block));
                  if lv3 != exp3 { let i = lv3.iter().zip(&exp3).position(|(a, b)| a != b).unwrap_or(lv3.len().min(exp3.len()));
                      return Err(format!("BYNAME frames of a {:?} game exported at version {:?}: schema differs from that version's field table at leaf {}: {:?} vs {:?}", r.v, ov, i, lv3.get(i), exp3.get(i))); }
                  if arrow2::array::Array::len(&sa3) != n { return Err(format!("BYNAME frames exported at version {:?}: {} rows for {} frames", ov, arrow2::array::Array::len(&sa3), n)); } } }
            Ok::<_, String>((d, w.is_ok() && o == b, rows == n, lv))
        });
        let mut c = Case::new(format!("into {}", hex(&b)), String::new());
        match res { Err(_) => { c.impl_out = "panic".into(); if zero_ports { tags.push("zero-ports".into()); c.fail("C14", "KNOWN:zero-ports panic in into_struct_array (no occupied port)"); } else { c.fail("C14", "panic in into/from_struct_array"); } }
            Ok(Err(e)) if e.starts_with("BYNAME ") => { c.impl_out = "byname".into(); c.fail("C14", e[7..].to_string()); }
            Ok(Err(e)) if e.starts_with("WINDOW ") => { c.impl_out = "window".into(); c.fail("C13", e[7..].to_string()); c.fail("C14", e[7..].to_string()); }
            Ok(Err(e)) => { c.impl_out = e; c.fail("C14", "well-formed replay rejected"); }
            Ok(Ok((d, same, rows, lv))) => { c.impl_out = format!("ok {}", d);
                let exp = spec::arrow_leaves(r.v, &slots_of(&r.start_block));
                if lv != exp { let i = lv.iter().zip(&exp).position(|(a, b)| a != b).unwrap_or(lv.len().min(exp.len())); c.fail("C14", format!("Arrow schema differs from the per-version field table at leaf {}: {:?} vs {:?}", i, lv.get(i), exp.get(i))); } if !same { c.fail("C14", "from_struct_array(into_struct_array(frames)) does not serialise to the identical .slp"); } if !rows { c.fail("C14", "struct array length != number of frame rows"); } } }
        c.tags = tags; ctx.push(c);
        // a game of a version newer than the library knows (read with the newest layout, longer payloads tolerated): the Arrow export at that version has
        // the newest field table, and export / import / export is a fixed point (no writer involved: the writers refuse such versions)
        if k % 5 == 3 { let (mut r2, _) = gen_replay(rng, k, &GenOpts { max_frames: 4, newer: true, force: None }); if r2.frames.is_empty() || slots_of(&r2.start_block).is_empty() { r2 = simple((4, 0, 0), &[(0, 0, 2), (1, 1, 14)], 3, &[], rng); }
            if (k / 5) % 2 == 0 { let v2 = [(4u8, 0u8, 0u8), (4, 6, 2), (5, 3, 1), (255, 0, 0), (4, 7, 0)][(k / 10) % 5]; r2.v = v2; r2.start_block[0] = v2.0; r2.start_block[1] = v2.1; r2.start_block[2] = v2.2; }
            let b2 = encode(&r2);
            let mut c = Case::new(format!("skipcase newer-export {:?}", r2.v), String::new()); c.tags = vec![format!("newer-export major{}", r2.v.0.min(5))];
            let res = std::panic::catch_unwind(|| -> Result<(Vec<String>, String, String, usize, usize), String> { let g = slippi::read(Cursor::new(&b2), None).map_err(|e| e.to_string())?; let ports = port_occupancy(&g.start); let ver = g.start.slippi.version; let n = g.frames.id.len();
                let sa = g.frames.into_struct_array(ver, &ports); let mut lv = vec![]; crate::arrowdump::leaves("", arrow2::array::Array::data_type(&sa), &mut lv); let d1 = crate::arrowdump::dump(&sa); let rows = arrow2::array::Array::len(&sa);
                let sa2 = im::Frame::from_struct_array(sa, ver).into_struct_array(ver, &ports); Ok((lv, d1, crate::arrowdump::dump(&sa2), rows, n)) });
            match res { Err(_) => { c.impl_out = "panic".into(); c.fail("C14", format!("panic exporting / importing the frames of a {:?} game", r2.v)); } Ok(Err(e)) => { c.impl_out = format!("err {}", &e[..e.len().min(60)]); }
                Ok(Ok((lv, d1, d2, rows, n))) => { c.impl_out = format!("ok rows={} same={}", rows, d1 == d2); let exp = spec::arrow_leaves(r2.v, &slots_of(&r2.start_block));
                    if lv != exp { let i = lv.iter().zip(&exp).position(|(a, b)| a != b).unwrap_or(lv.len().min(exp.len())); c.fail("C14", format!("frames of a {:?} game: Arrow schema differs from the field table at leaf {}: {:?} vs {:?}", r2.v, i, lv.get(i), exp.get(i))); }
                    if rows != n { c.fail("C14", format!("{} rows for {} frames", rows, n)); } if d1 != d2 { c.fail("C14", format!("frames of a {:?} game: export, import, export is not a fixed point", r2.v)); } } }
            ctx.push(c); }
        // an item row that no frame's offsets cover (the reader accepts an Item event that carries the last frame's id after that frame's Frame End; a
        // user-built table may have one too): export and import keep the item column as it is, the written file is the same with and without the trip
        if gte(r.v, 3, 0) && k % 4 == 1 && !zero_ports { let pad = Pad::default(); let mut body = body_events(&r, &pad);
            if let (Some(li), Some(it)) = (body.iter().rposition(|e| e[0] == 0x3C), body.iter().rev().find(|e| e[0] == 0x3B).cloned().or_else(|| { let mut e = vec![0x3Bu8]; e.extend(r.frames.last().map_or(-123i32, |f| f.id).to_be_bytes()); e.extend(rng.bytes(crate::gen::item_size(r.v) - 4)); Some(e) })) {
                let mut it = it; let id = r.frames.last().map_or(-123i32, |f| f.id); it[1..5].copy_from_slice(&id.to_be_bytes()); body.insert(li + 1, it);
                let b2 = assemble(&r, &table(&r, &pad), &body, &[], &pad);
                let mut c = Case::new(format!("skipcase trailing-item {}", k), String::new()); c.tags = vec!["trailing-item".into()];
                let res = std::panic::catch_unwind(|| -> Option<(Vec<u8>, Vec<u8>)> { let g = slippi::read(Cursor::new(&b2), None).ok()?; let ports = port_occupancy(&g.start); let ver = g.start.slippi.version; let mut w1 = vec![]; slippi::write(&mut w1, &g).ok()?;
                    let Game { start, end, frames, metadata, gecko_codes, quirks, .. } = g; let f2 = im::Frame::from_struct_array(frames.into_struct_array(ver, &ports), ver);
                    let mut w2 = vec![]; slippi::write(&mut w2, &Game { start, end, frames: f2, metadata, gecko_codes, hash: None, quirks }).ok()?; Some((w1, w2)) });
                match res { Err(_) => { c.impl_out = "panic".into(); c.fail("C14", "panic exporting / importing a frame table with an item row behind the last offset"); }
                    Ok(None) => { c.impl_out = "not-accepted".into(); } Ok(Some((w1, w2))) => { c.impl_out = format!("ok {}", w1 == w2); if w1 != w2 { c.fail("C14", format!("frame table with an item row behind the last offset: the file written after export and import differs from the one written directly ({} vs {} bytes)", w2.len(), w1.len())); } } }
                ctx.push(c); } }
    }
}

/// a NUL-terminated string in a fixed buffer of `w` bytes holds at most `w - 1` characters: the value is what precedes the first NUL,
/// and the last byte of an unterminated buffer is not part of it
pub fn cstr(b: &[u8]) -> &[u8] { &b[..b.iter().position(|&x| x == 0).unwrap_or(b.len() - 1)] }
pub fn until_nul(b: &[u8]) -> &[u8] { &b[..b.iter().position(|&x| x == 0).unwrap_or(b.len())] }
pub fn sjis(b: &[u8]) -> Option<String> { encoding_rs::SHIFT_JIS.decode_without_bom_handling_and_without_replacement(b).map(|c| c.to_string()) }

/// canonical JSON of serde_json::Value with f32 / string fields replaced using the struct and the raw block (spec offsets)
pub fn canon_start(g: &peppi::game::Start, block: &[u8], c: &mut Vec<(String, String)>) -> String {
    use serde_json::Value;
    let mut v = serde_json::to_value(g).unwrap();
    v["damage_ratio"] = Value::String(format!("f:{}", g.damage_ratio.to_bits()));
    for (i, p) in g.players.iter().enumerate() {
        let port = p.port as usize; let pv = &mut v["players"][i];
        pv["offense_ratio"] = Value::String(format!("f:{}", p.offense_ratio.to_bits())); pv["defense_ratio"] = Value::String(format!("f:{}", p.defense_ratio.to_bits())); pv["model_scale"] = Value::String(format!("f:{}", p.model_scale.to_bits()));
        if let Some(t) = &p.name_tag { let sl = until_nul(&block[352 + 16 * port..352 + 16 * port + 16]); if sjis(sl).as_deref() != Some(t.0.as_str()) { c.push(("C19".into(), format!("port {} name_tag is not the Shift-JIS decoding of the field up to its first NUL", port))); c.push(("C05".into(), format!("port {} name_tag differs from the value at its spec offset", port))); } pv["name_tag"] = Value::String(format!("sjis:{}", hex(sl))); }
        if let Some(n) = &p.netplay {
            let a = until_nul(&block[420 + 31 * port..420 + 31 * port + 31]); let cc = until_nul(&block[544 + 10 * port..544 + 10 * port + 10]);
            if sjis(a).as_deref() != Some(n.name.0.as_str()) || sjis(cc).as_deref() != Some(n.code.0.as_str()) { c.push(("C19".into(), format!("port {} netplay name/code is not the Shift-JIS decoding of the field up to its first NUL", port))); c.push(("C05".into(), format!("port {} netplay name/code differs from the value at its spec offset", port))); }
            pv["netplay"]["name"] = Value::String(format!("sjis:{}", hex(a))); pv["netplay"]["code"] = Value::String(format!("sjis:{}", hex(cc)));
            if let Some(u) = &n.suid { pv["netplay"]["suid"] = Value::String(format!("utf8:{}", hex(u.as_bytes()))); }
        }
    }
    if let Some(m) = &g.r#match { v["match"]["id"] = Value::String(format!("utf8:{}", hex(m.id.as_bytes()))); }
    serde_json::to_string(&v).unwrap()
}

/// C05 stated on the real struct: every exposed field against the Appendix-A offset of the raw block
pub fn check_start_fields(s: &peppi::game::Start, b: &[u8], c: &mut Vec<(String, String)>) {
    let mut bad = |what: String| c.push(("C05".into(), what));
    let be32 = |o: usize| u32::from_be_bytes([b[o], b[o+1], b[o+2], b[o+3]]);
    if s.bytes.0 != b { bad("raw start block not retained unchanged".into()); }
    if (s.slippi.version.0, s.slippi.version.1, s.slippi.version.2) != (b[0], b[1], b[2]) { bad("version".into()); }
    if s.bitfield != [b[4], b[5], b[6], b[7]] { bad("bitfield".into()); }
    if s.is_raining_bombs != (b[10] != 0) { bad("is_raining_bombs".into()); }
    if s.is_teams != (b[12] != 0) { bad("is_teams".into()); }
    if s.item_spawn_frequency != b[15] as i8 { bad("item_spawn_frequency".into()); }
    if s.self_destruct_score != b[16] as i8 { bad("self_destruct_score".into()); }
    if s.stage != u16::from_be_bytes([b[18], b[19]]) { bad("stage".into()); }
    if s.timer != be32(20) { bad("timer".into()); }
    if s.item_spawn_bitfield != [b[39], b[40], b[41], b[42], b[43]] { bad("item_spawn_bitfield".into()); }
    if s.damage_ratio.to_bits() != be32(52) { bad("damage_ratio".into()); }
    if s.random_seed != be32(316) { bad("random_seed".into()); }
    let occupied: Vec<usize> = (0..4).filter(|p| b[100 + 36 * p + 1] <= 2).collect();
    let got: Vec<usize> = s.players.iter().map(|p| p.port as usize).collect();
    if got != occupied { bad(format!("players listed for ports {:?}, type bytes say {:?}", got, occupied)); return; }
    for pl in &s.players {
        let p = pl.port as usize; let o = 100 + 36 * p;
        if pl.character != b[o] { bad(format!("port {} character", p)); }
        if pl.r#type as u8 != b[o + 1] { bad(format!("port {} type", p)); }
        if pl.stocks != b[o + 2] { bad(format!("port {} stocks", p)); }
        if pl.costume != b[o + 3] { bad(format!("port {} costume", p)); }
        match (&pl.team, s.is_teams) { (Some(t), true) => if t.shade != b[o + 7] || t.color != b[o + 9] { bad(format!("port {} team", p)); }, (None, false) => {}, _ => bad(format!("port {} team presence vs teams flag", p)) }
        if pl.handicap != b[o + 8] { bad(format!("port {} handicap", p)); }
        if pl.bitfield != b[o + 12] { bad(format!("port {} bitfield", p)); }
        match (pl.cpu_level, b[o + 1] == 1) { (Some(l), true) => if l != b[o + 15] { bad(format!("port {} cpu_level", p)); }, (None, false) => {}, _ => bad(format!("port {} cpu_level presence vs type", p)) }
        if pl.offense_ratio.to_bits() != be32(o + 24) || pl.defense_ratio.to_bits() != be32(o + 28) || pl.model_scale.to_bits() != be32(o + 32) { bad(format!("port {} ratios", p)); }
        match (&pl.ucf, b.len() >= 352) { (Some(u), true) => { let (d, sd) = (be32(320 + 8 * p), be32(324 + 8 * p)); if u.dash_back.map_or(0, |x| x as u32) != d || u.shield_drop.map_or(0, |x| x as u32) != sd { bad(format!("port {} ucf", p)); } } (None, false) => {}, _ => bad(format!("port {} ucf presence vs block length {}", p, b.len())) }
        if pl.name_tag.is_some() != (b.len() >= 416) { bad(format!("port {} name_tag presence vs block length {}", p, b.len())); }
        if pl.netplay.is_some() != (b.len() >= 584) { bad(format!("port {} netplay presence vs block length {}", p, b.len())); }
        if let Some(n) = &pl.netplay { match (&n.suid, b.len() >= 700) { (Some(u), true) => if u.as_bytes() != cstr(&b[584 + 29 * p..584 + 29 * p + 29]) { bad(format!("port {} suid", p)); }, (None, false) => {}, _ => bad(format!("port {} suid presence", p)) } }
    }
    match (s.is_pal, b.len() >= 417) { (Some(x), true) => if x != (b[416] != 0) { bad("is_pal".into()); }, (None, false) => {}, _ => bad("is_pal presence".into()) }
    match (s.is_frozen_ps, b.len() >= 418) { (Some(x), true) => if x != (b[417] != 0) { bad("is_frozen_ps".into()); }, (None, false) => {}, _ => bad("is_frozen_ps presence".into()) }
    match (&s.scene, b.len() >= 420) { (Some(x), true) => if (x.minor, x.major) != (b[418], b[419]) { bad("scene".into()); }, (None, false) => {}, _ => bad("scene presence".into()) }
    match (&s.language, b.len() >= 701) { (Some(x), true) => if *x as u8 != b[700] { bad("language".into()); }, (None, false) => {}, _ => bad("language presence".into()) }
    match (&s.r#match, b.len() >= 760) { (Some(m), true) => if m.id.as_bytes() != cstr(&b[701..752]) || m.game != be32(752) || m.tiebreaker != be32(756) { bad("match info".into()); }, (None, false) => {}, _ => bad("match presence".into()) }
}

fn start(rng: &mut Rng, ctx: &mut Ctx) {
    let classes = version_classes();
    // every declared Game Start size from 1 byte to the whole block (the rest of the file as it is), for one version per run: the reader returns — an error
    // for the sizes that end inside a field or before the end of the 0.1 layout, a game for the others — and both readers and the start call agree
    { let v = classes[(ctx.seed as usize) % classes.len()]; let r = simple(v, &[(0, 0, 2), (1, 1, 14)], 2, &[], rng); let full = r.start_block.len();
        let mut panics: Vec<usize> = vec![]; let mut oks = 0usize; let pad = Pad::default();
        for sz in 1..=full { let mut r2 = r.clone(); r2.start_block.truncate(sz); let b = assemble(&r2, &table(&r2, &pad), &body_events(&r2, &pad), &[], &pad);
            for (skip, hash) in [(false, false), (true, true)] { let o = read_opts(skip, hash);
                match std::panic::catch_unwind(|| slippi::read(Cursor::new(&b), Some(&o)).is_ok()) { Err(_) => { if !panics.contains(&sz) { panics.push(sz); } } Ok(true) => oks += 1, Ok(false) => {} } }
            if std::panic::catch_unwind(|| { let mut c = Cursor::new(&b[..]); slippi::de::parse_header(&mut c, None).and_then(|_| slippi::de::parse_start(&mut c, None)).is_ok() }).is_err() && !panics.contains(&sz) { panics.push(sz); } }
        let mut c = Case::new(format!("skipcase start-sizes {:?}", v), format!("sizes 1..={} panics={:?} accepted={}", full, &panics[..panics.len().min(8)], oks)); c.tags = vec!["start-sizes".into()];
        if !panics.is_empty() { c.fail("C06", format!("the reader panics when the payload table declares a Game Start of {:?} bytes (version {:?})", &panics[..panics.len().min(12)], v)); }
        ctx.push(c); }
    for k in 0..ctx.n {
        let v = if k % 3 == 2 { [(3u8,9u8,0u8),(3,11,0),(3,12,0),(3,14,0),(3,16,0),(3,10,4),(3,13,0),(1,3,0)][(k / 3) % 8] } else { classes[k % classes.len()] };
        let mut pl = vec![]; for p in 0..4u8 { pl.push((p, (rng.next() % 5) as u8, (rng.next() % 30) as u8)); }
        let mut b = start_block(v, &pl, rng);
        if k % 4 == 0 { b[12] = 0; } // teams off
        if b.len() >= 352 { let bad_ucf = k % 10 == 9; for p in 0..4 { for j in 0..2 { let vv: u32 = if bad_ucf && rng.next() % 4 == 0 { [3u32, 256, u32::MAX][(rng.next() % 3) as usize] } else { (rng.next() % 3) as u32 }; b[320 + 8 * p + 4 * j..320 + 8 * p + 4 * j + 4].copy_from_slice(&vv.to_be_bytes()); } } }
        // name fields: mostly valid Shift-JIS (ASCII, two-byte kana / punctuation, half-width kana), a NUL somewhere, garbage after it;
        // one case in eight gets an invalid sequence in one field
        let poison = if k % 8 == 7 { Some((rng.next() % 12) as usize) } else { None };
        let mut fill = |b: &mut Vec<u8>, off: usize, width: usize, slot: usize, rng: &mut Rng| {
            let toks: [&[u8]; 9] = [b"A", b"z", b"7", &[0x82, 0xa0], &[0x83, 0x41], &[0xb1], &[0x81, 0x49], &[0x81, 0x40], b"#"];
            // one field in five is dense: a single class of character repeated up to (or one short of) the full width — half-width kana
            // (1 byte -> 3 bytes of UTF-8, the longest decoded form a field can have), two-byte kana, ASCII
            let dense = match rng.next() % 15 { 0 => Some(5usize), 1 => Some(3), 2 => Some(0), 3 | 4 => Some(6), _ => None }; /* 6: legal Shift-JIS that is also well-formed multi-byte UTF-8 (pairs of half-width kana, lead bytes E0..EF lined up as three-byte UTF-8): still Shift-JIS */
            let target = if dense.is_some() { width - (rng.next() % 2) as usize } else { (rng.next() as usize) % (width + 1) }; let mut j = 0;
            while j < target { let t = match dense { Some(5) => [&[0xb1u8][..], &[0xdf], &[0xa1], &[0xc0]][(rng.next() % 4) as usize], Some(6) => [&[0xC3u8, 0xA9][..], &[0xC4, 0xB0], &[0xDF, 0xA1], &[0xE3, 0x81, 0x82, 0xE3, 0x81, 0x84]][(rng.next() % 4) as usize], Some(d) => toks[d], None => toks[(rng.next() % 9) as usize] }; if j + t.len() > target { break; } b[off + j..off + j + t.len()].copy_from_slice(t); j += t.len(); }
            if poison == Some(slot) && width >= 2 { let at = if j >= 2 { (rng.next() as usize) % (j - 1) } else { 0 }; let bad: &[u8] = [&[0x82u8, 0x20][..], &[0xff, 0x41], &[0x81, 0x7f]][(rng.next() % 3) as usize]; b[off + at..off + at + 2].copy_from_slice(bad); j = j.max(at + 2);
                // the first bytes of the field look like a byte-order mark (UTF-16 LE / BE, UTF-8): invalid Shift-JIS like any other 0xFF / 0xFE / lone 0xEF
                if rng.next() % 3 == 0 && width >= 5 { let bom: &[u8] = [&[0xffu8, 0xfe, 0x41, 0x30][..], &[0xfe, 0xff, 0x30, 0x41], &[0xef, 0xbb, 0xbf, 0x41]][(rng.next() % 3) as usize]; b[off..off + 4].copy_from_slice(bom); j = j.max(4); } }
            if j < width { b[off + j] = 0; for x in j + 1..width { b[off + x] = (rng.next() >> 8) as u8; } }
        };
        if b.len() >= 416 { for p in 0..4 { fill(&mut b, 352 + 16 * p, 16, p, rng); } }
        if b.len() >= 584 { for p in 0..4 { fill(&mut b, 420 + 31 * p, 31, 4 + p, rng); fill(&mut b, 544 + 10 * p, 10, 8 + p, rng); } }
        // UTF-8 fields (Slippi UID, match id): one- to four-byte characters, lengths at the field boundary (w-2, w-1, w: no terminator),
        // a multi-byte character ending exactly at / straddling the end of the field, occasionally an invalid byte
        let mut fill8 = |b: &mut Vec<u8>, off: usize, w: usize, rng: &mut Rng| {
            let toks: [&[u8]; 5] = [b"a", b"7", "é".as_bytes(), "€".as_bytes(), "😀".as_bytes()];
            let target = match rng.next() % 8 { 0 => w, 1 => w - 1, 2 => w - 2, 3 => 0, _ => (rng.next() as usize) % (w + 1) };
            let mut j = 0; while j < target { let t = if target - j <= 4 && rng.next() % 2 == 0 { toks[(target - j).min(4)] } else { toks[(rng.next() % 5) as usize] }; if j + t.len() > w { break; } b[off + j..off + j + t.len()].copy_from_slice(t); j += t.len(); }
            if rng.next() % 16 == 0 && j > 0 { b[off + (rng.next() as usize) % j] = [0xffu8, 0x80, 0xc3][(rng.next() % 3) as usize]; }
            if j < w { b[off + j] = 0; for x in j + 1..w { b[off + x] = (rng.next() >> 8) as u8; } }
        };
        if b.len() >= 700 { for p in 0..4 { fill8(&mut b, 584 + 29 * p, 29, rng); } }
        if b.len() >= 701 { b[700] = (rng.next() % 3) as u8 % 2; }
        if b.len() >= 760 { fill8(&mut b, 701, 51, rng); }
        // the version bytes and the length of the block disagree (a build that back-ported fields without bumping the version, or the reverse):
        // which optional fields exist is decided by the length of the block alone
        if k % 13 == 5 { let nv = [(3u8, 9u8, 1u8), (3, 13, 0), (2, 0, 1), (3, 16, 0), (1, 0, 0), (3, 11, 0)][(k / 13) % 6]; b[0] = nv.0; b[1] = nv.1; b[2] = nv.2; }
        if k % 7 == 6 { let cut = (rng.next() as usize) % b.len(); b.truncate(cut.max(1)); }
        if k % 11 == 10 { b.extend(rng.nbytes(40)); } // longer than any known layout (newer version)
        let r = Replay { v, start_block: b.clone(), gecko: None, frames: vec![], end: None, double_end: false, metadata: None, extra_payloads: vec![] };
        let file = encode(&r);
        let mut fails = vec![];
        let res = std::panic::catch_unwind(std::panic::AssertUnwindSafe(|| slippi::read(Cursor::new(&file), None).map(|g| { check_start_fields(&g.start, &b, &mut fails); canon_start(&g.start, &b, &mut fails) })));
        let line = match res { Err(_) => "panic".to_string(), Ok(Err(e)) => format!("err {}", e), Ok(Ok(j)) => format!("ok {}", j) };
        let mut sj_ok = true;
        for p in 0..4 {
            if b.len() >= 416 { sj_ok &= sjis(until_nul(&b[352 + 16 * p..352 + 16 * p + 16])).is_some(); }
            if b.len() >= 584 { sj_ok &= sjis(until_nul(&b[420 + 31 * p..420 + 31 * p + 31])).is_some() && sjis(until_nul(&b[544 + 10 * p..544 + 10 * p + 10])).is_some(); } }
        let mut c = Case::new(format!("start {} {}", sj_ok as u8, hex(&b)), line.clone()); c.oracle = fails;
        if line == "panic" { c.fail("C06", "panic while parsing a Game Start block"); }
        if !sj_ok && line.starts_with("ok") { c.fail("C19", "a name field with an invalid Shift-JIS sequence was accepted"); }
        c.tags = vec![format!("v{}.{}", v.0, v.1), format!("len{}", b.len()), format!("sjis{}", sj_ok as u8)];
        // the incremental API on a stream that ends inside the declared block, exactly where an older layout would end: the block is
        // what the payload table says, so this is an error, never an older version's Game Start
        if k % 5 == 1 && line.starts_with("ok") { let at = file.len() - 1 - b.len();
            for l in [320usize, 352, 416, 417, 418, 420, 584, 700, 701, 760] { if l < b.len() {
                let cut = &file[..at + l];
                let r = std::panic::catch_unwind(|| { let mut src = Cursor::new(cut); slippi::de::parse_header(&mut src, None).and_then(|_| slippi::de::parse_start(&mut src, None)).map(|st| { use peppi::game::Game as _; st.start().bytes.0.len() }) });
                match r { Ok(Err(_)) => {} Ok(Ok(n)) => { c.fail("C05", format!("parse_start on a stream that ends {} bytes into a {}-byte Game Start block returns a start block of {} bytes", l, b.len(), n)); c.fail("C07", "incremental parse_start accepts a truncated Game Start block".to_string()); }
                    Err(_) => c.fail("C06", "parse_start panicked on a truncated Game Start block".to_string()) } } }
            c.tags.push("inc-cut".into()); }
        ctx.push(c);
    }
    // Game End blocks
    for k in 0..(ctx.n / 3).max(30) {
        let len = [1usize, 2, 6, 6, 2, 1, 7, 9, 6, 2, 6, 3, 6, 2, 1, 4, 6, 5][k % 18];
        let mut e: Vec<u8> = vec![[0u8, 1, 2, 3, 7, 0, 1, 2, 3, 7, 2, 4, 255][(rng.next() % 13) as usize]];
        if len >= 2 { e.push([255u8, 0, 1, 2, 3, 255, 0, 1, 2, 3, 4, 128][(rng.next() % 12) as usize]); }
        for _ in 2..len { e.push([255u8, 0, 1, 2, 3, 255, 0, 1, 2, 3, 255, 0, 1, 2, 3, 4, 250][(rng.next() % 17) as usize]); }
        // every pattern of "no placement" sentinels over the four ports (all absent and all present included), walked
        if len >= 6 && k < 64 { let mask = (k / 2) % 16; for i in 0..4 { e[2 + i] = if mask >> i & 1 == 1 { 255 } else { (i as u8 + k as u8) % 4 }; } if k % 2 == 1 { e[1] = 255; } }
        let v: V = if len >= 6 { (3, 16, 0) } else if len >= 2 { (3, 0, 0) } else { (1, 0, 0) };
        let mut r = simple(v, &[(0, 0, 2)], 0, &[], rng); r.end = Some(e.clone()); r.metadata = None;
        let file = encode(&r);
        let mut c = Case::new(format!("end {}", hex(&e)), String::new());
        let res = std::panic::catch_unwind(|| slippi::read(Cursor::new(&file), None));
        match res { Err(_) => { c.impl_out = "panic".into(); c.fail("C06", "panic while parsing a Game End block"); } Ok(Err(_)) => c.impl_out = "err".into(),
            Ok(Ok(g)) => { let ge = g.end.unwrap(); c.impl_out = format!("ok {}", serde_json::to_string(&serde_json::to_value(&ge).unwrap()).unwrap());
                if ge.bytes.0 != e { c.fail("C05", "raw Game End block not retained"); }
                if ge.method as u8 != e[0] { c.fail("C05", "end method"); }
                match (ge.lras_initiator, e.len() >= 2) { (Some(x), true) => { let exp = if e[1] == 255 { None } else { Some(e[1]) }; if x.map(|p| p as u8) != exp { c.fail("C05", "lras_initiator"); } } (None, false) => {} _ => c.fail("C05", "lras_initiator presence") }
                match (&ge.players, e.len() >= 6) { (Some(ps), true) => { let exp: Vec<(u8, u8)> = (0..4).filter(|i| e[2 + i] != 255).map(|i| (i as u8, e[2 + i])).collect(); let got: Vec<(u8, u8)> = ps.iter().map(|p| (p.port as u8, p.placement)).collect(); if got != exp { c.fail("C05", format!("placements {:?} != {:?}", got, exp)); } } (None, false) => {} _ => c.fail("C05", "placements presence") }
            } }
        c.tags = vec![format!("endlen{}", len)]; ctx.push(c);
    }
    // a second Game End event behind the first with *other* contents (the reader takes it for the recorder's duplicate by its size alone and
    // ignores it): the game's end is the first block's
    for k in 0..12usize { let v: V = [(1u8, 0u8, 0u8), (3, 0, 0), (3, 16, 0), (2, 0, 0)][k % 4]; let n = crate::gen::gend_size(v);
        let mk = |m: u8, l: u8, pl: [u8; 4]| -> Vec<u8> { let mut e = vec![m]; if n >= 2 { e.push(l); } if n >= 6 { e.extend(pl); } e };
        let e1 = mk([1u8, 2, 7][k % 3], [255u8, 0, 2][(k / 3) % 3], [0, 1, 255, 255]); let e2 = mk([3u8, 0, 1][k % 3], [1u8, 255, 3][(k / 3) % 3], [255, 255, 1, 0]);
        let mut r = simple(v, &[(0, 0, 2), (1, 0, 9)], 2, &[], rng); r.end = Some(e1.clone()); if k % 2 == 0 { r.metadata = None; }
        let pad = Pad::default(); let mut junk = vec![0x39u8]; junk.extend(&e2);
        let plain = encode(&r); let file = assemble(&r, &table(&r, &pad), &body_events(&r, &pad), &junk, &pad);
        let (l0, g0) = read_line(&plain, false, false); let (l1, g1) = read_line(&file, false, false);
        let mut c = Case::new(read_cmd(false, false, &file), l1.clone()); c.tags = vec!["second-end-differs".into()];
        match (&g0, &g1) { (Some(g0), Some(g1)) => { if end_json(&g1.end) != end_json(&g0.end) || g1.end.as_ref().map(|e| &e.bytes.0) != Some(&e1) { c.fail("C05", format!("Game End fields {} are not those of the replay's Game End block {}", end_json(&g1.end), end_json(&g0.end))); }
                if start_json(&g1.start) != start_json(&g0.start) || g1.metadata != g0.metadata { c.fail("C08", "start / metadata differ when a second Game End event follows the first".to_string()); } }
            (Some(_), None) => c.fail("C08", format!("replay with a second Game End event behind the first rejected: {}", l1)), _ => { let _ = l0; } }
        ctx.push(c); }
}

pub fn gen_tree(rng: &mut Rng, depth: usize, out: &mut Vec<u8>) {
    let n = (rng.next() % 4) as usize;
    for i in 0..n {
        match rng.next() % 16 {
            0 => { let k = format!("{}é€😀", (b'a' + i as u8) as char); out.push(b'U'); out.push(k.len() as u8); out.extend(k.as_bytes()); } // non-ASCII key
            1 => { out.push(b'U'); out.push(255); out.push(b'a' + i as u8); out.extend(std::iter::repeat(b'k').take(254)); }                 // longest key
            2 => { out.push(b'U'); out.push(254); out.push(b'a' + i as u8); out.extend(std::iter::repeat(b'k').take(253)); }
            _ => { let klen = (rng.next() % 4) as usize; out.push(b'U'); out.push(klen as u8 + 1); out.push(b'a' + i as u8); for _ in 0..klen { out.push(match rng.next() % 12 { 0 => 0, 1 => b' ', 2 => b'"', 3 => b'\\', _ => b'a' + (rng.next() % 26) as u8 }); } }
        }
        match rng.next() % 4 {
            0 => { out.push(b'l'); let x = match rng.next() % 5 { 0 => i32::MIN, 1 => i32::MAX, 2 => -1, _ => (rng.next() >> 16) as i32 }; out.extend(x.to_be_bytes()); }
            1 => { let s: Vec<u8> = match rng.next() % 8 { 0 => vec![], 1 => "né😀".as_bytes().to_vec(), 2 => vec![b'x'; 255], 3 => b"Station 1\0\0\0".to_vec(), 4 => vec![0], 5 => "\u{feff} a\tb\r\n\u{7f}\u{10ffff} ".as_bytes().to_vec(), 6 => { let mut v: Vec<u8> = (0..(rng.next() % 9)).map(|_| (rng.next() % 128) as u8).collect(); if rng.next() % 2 == 0 { v.push(0); } v } _ => (0..(rng.next() % 9)).map(|_| 0x20 + (rng.next() % 90) as u8).collect() }; out.push(b'S'); out.push(b'U'); out.push(s.len() as u8); out.extend(s); }
            _ => { if depth < 4 { out.push(b'{'); gen_tree(rng, depth + 1, out); out.push(b'}'); } else { out.push(b'l'); out.extend(7i32.to_be_bytes()); } }
        }
    }
}
pub fn json_dump(m: &serde_json::Map<String, serde_json::Value>) -> String {
    let mut s = String::new();
    for (k, v) in m { s += &hex(k.as_bytes()); s.push('='); match v { serde_json::Value::String(x) => { s += "s:"; s += &hex(x.as_bytes()); } serde_json::Value::Number(n) => { s += &format!("i:{}", n) } serde_json::Value::Object(o) => { s.push('{'); s += &json_dump(o); s.push('}'); } _ => s += "?" } s.push(';'); }
    s
}
/// independent reference decoder of a UBJSON map body (keys `U len bytes`, values S/l/{ ) into the same dump
fn ref_tree(b: &[u8], pos: &mut usize, out: &mut String) -> Option<()> {
    loop {
        match *b.get(*pos)? { b'}' => { *pos += 1; return Some(()); } b'U' => {} _ => return None }
        let l = *b.get(*pos + 1)? as usize; let k = b.get(*pos + 2..*pos + 2 + l)?; *pos += 2 + l; std::str::from_utf8(k).ok()?;
        out.push_str(&hex(k)); out.push('=');
        match *b.get(*pos)? {
            b'l' => { let x = i32::from_be_bytes(b.get(*pos + 1..*pos + 5)?.try_into().ok()?); *pos += 5; out.push_str(&format!("i:{}", x)); }
            b'S' => { if *b.get(*pos + 1)? != b'U' { return None; } let l = *b.get(*pos + 2)? as usize; let s = b.get(*pos + 3..*pos + 3 + l)?; std::str::from_utf8(s).ok()?; *pos += 3 + l; out.push_str("s:"); out.push_str(&hex(s)); }
            b'{' => { *pos += 1; out.push('{'); ref_tree(b, pos, out)?; out.push('}'); }
            _ => return None }
        out.push(';');
    }
}
fn ubj(rng: &mut Rng, ctx: &mut Ctx) {
    for k in 0..ctx.n {
        let mut body = vec![]; gen_tree(rng, 1, &mut body);
        let mut clean = true;
        if k % 20 == 19 { let d = [127usize, 128, 126, 129, 120 + (rng.next() % 20) as usize, 1000][(k / 40) % 6]; /* every other one of these is replaced by a wide tree below: indexed by k / 40 so that the deepest accepted tree comes first */ body.clear(); for _ in 0..d - 1 { body.extend(b"U\x01a{"); } for _ in 0..d - 1 { body.push(b'}'); } clean = d <= 127; }
        if k % 40 == 19 { // wide but shallow: many maps in total, little nesting
            let n = [127usize, 200, 126, 111, 180][(k / 40) % 5] + (rng.next() % 3) as usize; body.clear(); for i in 0..n { body.extend(b"U\x03"); body.extend(format!("{:03}", i).as_bytes()); body.push(b'{'); if i % 7 == 0 { body.extend(b"U\x01x{U\x01yl\x00\x00\x00\x01}"); } body.push(b'}'); } clean = true; }
        // a value that is one marker byte repeated very many times (every UBJSON marker in turn, then every other byte): whatever the reader makes of the
        // byte — a container it knows, one it does not, a scalar — it must come back with a result; recursion on input-controlled depth is an abort
        let run = k % 16 == 7 && k % 20 != 19 && k < 16 * 48; /* (never in place of a deep or wide tree; 2 MB of hex each: the first 48 per shard) */
        if run { const MARKERS: &[u8] = b"[{#$NZTFiUIlLdDCSH]}"; let j = k / 16; let mk = if j < MARKERS.len() { MARKERS[j] } else { (j - MARKERS.len()) as u8 }; let depth = 400_000;
            body.clear(); body.extend(b"U\x01a"); body.extend(std::iter::repeat(mk).take(depth)); clean = false; }
        // long keys and values (200 / 255 bytes) made of one multi-byte character after a short ASCII prefix, so that characters straddle every
        // multiple of 64 (a reader that decodes a string in blocks must not cut a character)
        let longstr = k % 16 == 11 && k % 20 != 19;
        if longstr { let ch = ["€", "é", "😀", "あ"][(k / 16) % 4]; let j = (k / 16 + k / 64) % 3;
            let mk = |total: usize| -> Vec<u8> { let mut v: Vec<u8> = std::iter::repeat(b'a').take(j).collect(); while v.len() + ch.len() <= total { v.extend(ch.as_bytes()); } v };
            let (key, val) = (mk(200), mk(255)); body.clear(); body.push(b'U'); body.push(key.len() as u8); body.extend(&key); body.extend(b"SU"); body.push(val.len() as u8); body.extend(&val); clean = true; }
        // keys of length 0 (the empty string is a key like any other), first, in the middle, last, nested, next to an empty string value
        let emptykey = k % 16 == 13 && k % 20 != 19;
        if emptykey { body.clear(); body.extend(match (k / 16) % 4 { 0 => &b"U\x00SU\x01aU\x01bl\x00\x00\x00\x05"[..], 1 => &b"U\x01al\x00\x00\x00\x01U\x00{U\x00SU\x00U\x01cSU\x01d}U\x01el\xff\xff\xff\xff"[..], 2 => &b"U\x01aSU\x00U\x00SU\x00"[..], _ => &b"U\x01m{U\x00{U\x00l\x00\x00\x00\x09}U\x01xSU\x01y}U\x01zSU\x01w"[..] }); clean = true; }
        let structured = k % 20 == 19 || run || longstr || emptykey; // the deep and the wide trees stay as built
        if k % 9 == 8 && !structured && !body.is_empty() { let i = (rng.next() as usize) % body.len(); body[i] = (rng.next() >> 8) as u8; clean = false; }
        // a length written with another UBJSON integer type (`l` int32, `i` int8, `I` int16, `L` int64) — negative, zero, small, huge — where the
        // format subset has `U`: for a string value or for a key
        if k % 9 == 4 && !structured && body.len() >= 2 { let spots: Vec<usize> = std::iter::once(0usize).chain((0..body.len() - 2).filter(|&i| body[i] == b'S' && body[i + 1] == b'U').map(|i| i + 1)).filter(|&i| body[i] == b'U').collect();
            if !spots.is_empty() { let i = spots[(rng.next() as usize) % spots.len()];
                let rep: Vec<u8> = match rng.next() % 8 { 0 => { let mut v = vec![b'l']; v.extend((-1i32).to_be_bytes()); v } 1 => { let mut v = vec![b'l']; v.extend(i32::MIN.to_be_bytes()); v } 2 => { let mut v = vec![b'l']; v.extend(3i32.to_be_bytes()); v }
                    3 => { let mut v = vec![b'l']; v.extend(i32::MAX.to_be_bytes()); v } 4 => vec![b'i', 0xff], 5 => vec![b'I', 0x80, 0x00], 6 => { let mut v = vec![b'L']; v.extend((-2i64).to_be_bytes()); v } _ => { let mut v = vec![b'l']; v.extend(0i32.to_be_bytes()); v } };
                body.splice(i..i + 2, rep); clean = false; } }
        let mut r = simple((3,16,0), &[(0,0,2)], 1, &[], rng); r.metadata = Some(body.clone());
        let file = encode(&r);
        let mut fails: Vec<(String, String)> = vec![];
        ctx.starting(&format!("ubj {}", hex(&body)));
        let res = std::panic::catch_unwind(std::panic::AssertUnwindSafe(|| { let mut cur = Cursor::new(&file); slippi::read(&mut cur, None).map(|g| { let m = g.metadata.clone().unwrap(); let mut o = vec![]; let w = slippi::write(&mut o, &g);
            let rest = file.len() as u64 - cur.position() + 1;
            if clean { if w.is_err() || o != file { fails.push(("C16".into(), "metadata bytes not reproduced by the writer".into())); }
                let mut exp = String::new(); let mut pos = 0; let mut bb = body.clone(); bb.push(b'}');
                if ref_tree(&bb, &mut pos, &mut exp).is_some() && json_dump(&m) != exp { fails.push(("C16".into(), format!("tree {} != reference {}", json_dump(&m), exp))); } }
            let key = b"U\x08metadata{";
            let back = if w.is_ok() { let start = o.windows(key.len()).rposition(|w| w == key).unwrap() + key.len(); hex(&o[start..o.len() - 2]) } else { "?".into() };
            format!("ok {} rest={} back={}", json_dump(&m), rest, back) }) }));
        let line = match res { Err(_) => { fails.push(("C06".into(), "panic in the metadata reader".into())); "panic".to_string() } Ok(Err(e)) => { if std::env::var("PV_ERRS").is_ok() { eprintln!("UBJ-ERR {} : {}", hex(&body), e); } if clean { fails.push(("C16".into(), "well-formed metadata rejected".into())); } "err".to_string() } Ok(Ok(j)) => j };
        // the same file through a source that returns short reads: keys and strings arrive in pieces
        { let plan: Vec<usize> = match k % 4 { 0 => vec![1], 1 => vec![2, 3, 7], 2 => vec![4], _ => vec![199, 1] };
          let a = slippi::read(Cursor::new(&file), None).map(|g| format!("{:?}", g.metadata)).map_err(|e| e.to_string());
          let c2 = std::panic::catch_unwind(|| slippi::read(crate::suites2::Chunked::new(file.clone(), plan.clone(), None), None).map(|g| format!("{:?}", g.metadata)).map_err(|e| e.to_string()));
          match c2 { Ok(c2) => if a.is_ok() != c2.is_ok() || (a.is_ok() && a != c2) { fails.push(("C16".into(), format!("metadata read through short reads {:?} differs from the read from memory: {:?} vs {:?}", plan, c2.as_ref().map(|s| &s[..s.len().min(60)]), a.as_ref().map(|s| &s[..s.len().min(60)])))); },
              Err(_) => fails.push(("C16".into(), "metadata reader panicked over a source with short reads".into())) } }
        let mut arg = body.clone(); arg.push(b'}'); arg.push(b'}');
        // the JSON copy: serde_json's text of the tree the reader returned, against the model's writer (and reader) on the same tree
        if let Ok(g) = slippi::read(Cursor::new(&file), None) { if let Some(m) = &g.metadata {
            let j = serde_json::to_vec(m).unwrap();
            let mut cj = Case::new(format!("jsonw {}", hex(&arg)), format!("ok {} back=true", hex(&j))); cj.tags = vec!["jsonw".into()];
            match serde_json::from_slice::<serde_json::Map<String, serde_json::Value>>(&j) { Ok(m2) => if json_dump(&m2) != json_dump(m) || m2.keys().collect::<Vec<_>>() != m.keys().collect::<Vec<_>>() { cj.fail("C16", "JSON copy of the metadata does not read back as the same tree / key order"); }, Err(e) => cj.fail("C16", format!("JSON copy of the metadata is not valid JSON: {}", e)) }
            ctx.push(cj); } }
        let mut c = Case::new(format!("ubj {}", hex(&arg)), line); c.oracle = fails; c.tags = vec![format!("len{}", (body.len() / 50).min(9)), format!("clean{}", clean as u8)];
        ctx.push(c);
    }
}

pub fn canon_end(e: &peppi::game::End) -> String { serde_json::to_string(&serde_json::to_value(e).unwrap()).unwrap() }

fn peppi_suite(rng: &mut Rng, ctx: &mut Ctx) {
    // one long game (first shard): more frame rows than fit a 16-bit count, through .slpp and back (oracle only: the
    // model is not run on an 11 MB file)
    if ctx.seed % 1000 == 0 { let n = 65_537 + (ctx.seed as usize / 1000) % 3; let r = simple((3, 16, 0), &[(1, 0, 9)], n, &[], rng); let b = encode(&r);
        let mut c = Case::new(format!("skipcase long-game {}", n), String::new());
        let res = std::panic::catch_unwind(|| -> Result<bool, String> { let g = slippi::read(Cursor::new(&b), None).map_err(|e| format!("read: {}", e))?; let mut a = vec![];
            peppi::io::peppi::write(&mut a, g, Some(&peppi::io::peppi::ser::Opts { compression: Some(arrow2::io::ipc::write::Compression::LZ4) })).map_err(|e| format!("peppi write: {}", e))?;
            let g2 = peppi::io::peppi::read(Cursor::new(&a), None).map_err(|e| format!("peppi read: {}", e))?; let mut o = vec![]; slippi::write(&mut o, &g2).map_err(|e| format!("write: {}", e))?; Ok(o == b) });
        match res { Ok(Ok(true)) => c.impl_out = "ok same".into(), Ok(Ok(false)) => { c.impl_out = "ok different".into(); c.fail("C02", format!("slp -> slpp -> slp differs from the original for a game of {} frames", n)); }
            Ok(Err(e)) => { c.impl_out = format!("err {}", e); c.fail("C02", format!("game of {} frames does not survive slp -> slpp -> slp: {}", n, e)); } Err(_) => { c.impl_out = "panic".into(); c.fail("C02", format!("panic on a game of {} frames", n)); } }
        c.tags = vec!["long-game".into()]; ctx.push(c); }
    use std::io::Read;
    use arrow2::io::ipc::read::{read_stream_metadata, StreamReader, StreamState};
    let comps = [None, Some(arrow2::io::ipc::write::Compression::LZ4), Some(arrow2::io::ipc::write::Compression::ZSTD)];
    let go = GenOpts { max_frames: if ctx.thorough { 25 } else { 7 }, newer: false, force: None };
    for k in 0..ctx.n {
        let (mut r, mut tags) = gen_replay(rng, k, &go);
        if k == 0 { r = simple((3, 16, 0), &[], 2, &[], rng); } // the recorded finding, in every run
        // metadata nested around the deepest level the .slp reader accepts (127 maps): whatever it accepts must survive the JSON copy
        let deep = if k % 12 == 5 { Some([127usize, 128, 126, 129][(k / 12) % 4]) } else { None };
        if let Some(d) = deep { let mut m = vec![]; for _ in 0..d - 1 { m.extend(b"U\x01a{"); } for _ in 0..d - 1 { m.push(b'}'); } r.metadata = Some(m); }
        // a metadata tree whose JSON copy is large: just below / at / above 64 KiB and well beyond (members of an archive have no size limit
        // other than tar's; a reader that buffers "small" members must not cut this one)
        if k % 10 == 6 && k < 300 { let target = [65_537usize, 65_536, 300_000, 65_535, 70_000, 131_073][(k / 10) % 6]; let per = 11 + 200 + 1; let n = (target - 2) / per; let mut m = vec![];
            let used = 2 + n * per - 1; let last = 200 + target.saturating_sub(used).min(55);
            for i in 0..n { let key = format!("k{:05}", i); m.push(b'U'); m.push(6); m.extend(key.as_bytes()); let vl = if i + 1 == n { last } else { 200 }; m.extend(b"SU"); m.push(vl as u8); m.extend(std::iter::repeat(b'a' + (i % 26) as u8).take(vl)); }
            r.metadata = Some(m); tags.push(format!("big-metadata:{}", target)); }
        // name fields are not empty (one ASCII / kana character per field, then NUL): what the archive's reader makes of start.raw shows in them
        { let b = &mut r.start_block; if b.len() >= 416 { for p in 0..4 { b[352 + 16 * p] = b'A' + p as u8; b[352 + 16 * p + 1] = [0u8, 0xb1][p % 2]; b[352 + 16 * p + 2] = 0; } }
          if b.len() >= 584 { for p in 0..4 { b[420 + 31 * p] = b'n'; b[420 + 31 * p + 1] = b'0' + p as u8; b[420 + 31 * p + 2] = 0; b[544 + 10 * p] = b'C'; b[544 + 10 * p + 1] = b'#'; b[544 + 10 * p + 2] = b'1' + p as u8; b[544 + 10 * p + 3] = 0; } } }
        let comp = comps[k % 3]; let hash = k % 2 == 0;
        // every other hashed replay gets a digest with one or two leading zero hex digits (the random seed of the start block is varied until it
        // has): the stored string is 16 digits wide whatever the value
        if hash && k % 4 == 0 && r.start_block.len() >= 320 { let want = if k % 8 == 0 { 56 } else { 60 };
            for t in 0..20000u32 { r.start_block[316..320].copy_from_slice(&t.to_be_bytes()); if xxhash_rust::xxh3::xxh3_64(&encode(&r)) >> want == 0 { break; } } }
        let b = encode(&r);
        let zero_ports = slots_of(&r.start_block).is_empty();
        let odd_hash: Option<String> = if k % 6 == 5 { Some(["xxh3:72CEDBF232804931", "xxh3:93a318024217962", "sha1:da39a3ee5e6b4b0d3255bfef95601890afd80709", "xxh3:00000000000000001", "XXH3:72cedbf232804931"][(k / 6) % 5].to_string()) } else { None };
        let mut fails: Vec<(String, String)> = vec![]; let mut extra: Option<String> = None;
        let res = std::panic::catch_unwind(std::panic::AssertUnwindSafe(|| -> Result<String, String> {
            let g = slippi::read(Cursor::new(&b), Some(&read_opts(false, hash))).map_err(|_| "err".to_string())?;
            // a hash the caller put there (another tool's spelling: upper case, fewer digits, another algorithm): stored and returned as it is
            let mut g = g; if let Some(o) = &odd_hash { g.hash = Some(o.clone()); }
            let start = g.start.clone(); let endc = g.end.clone(); let h0 = g.hash.clone(); let q0 = g.quirks.map(|q| q.double_game_end);
            let nframes = g.frames.id.len(); let has_gecko = g.gecko_codes.is_some(); let md0 = g.metadata.clone();
            let mut buf = vec![];
            peppi::io::peppi::write(&mut buf, g, Some(&peppi::io::peppi::ser::Opts { compression: comp })).map_err(|_| "err".to_string())?;
            if &buf[..10] != b"peppi.json" { fails.push(("C18".into(), "file signature `peppi.json` is not at offset 0".into())); }
            // the same archive written into a sink that accepts a few bytes per call
            if k % 3 == 1 { let g = { let mut g = slippi::read(Cursor::new(&b), Some(&read_opts(false, hash))).unwrap(); if let Some(o) = &odd_hash { g.hash = Some(o.clone()); } g }; let mut sink = crate::suites2::ShortSink::new([1usize, 7, 100, 511, 513][k % 5], None, if k % 2 == 0 { 4 } else { 0 });
                let r = peppi::io::peppi::write(&mut sink, g, Some(&peppi::io::peppi::ser::Opts { compression: comp }));
                if r.is_err() || sink.out != buf { let m = format!(".slpp written into a sink that takes {} bytes per call differs from the one written into a Vec ({:?}, lengths {} vs {})", [1usize, 7, 100, 511, 513][k % 5], r.err().map(|e| e.to_string()), sink.out.len(), buf.len()); fails.push(("C02".into(), m.clone())); fails.push(("C18".into(), m)); } }
            // the archive is complete in the caller's sink when `write` returns, also when the caller's writer buffers on its own (a BufWriter with
            // room left, a sink that commits on flush): the writer's last act is to flush what it was given
            if k % 3 == 2 { let g = { let mut g = slippi::read(Cursor::new(&b), Some(&read_opts(false, hash))).unwrap(); if let Some(o) = &odd_hash { g.hash = Some(o.clone()); } g };
                let mut bw = std::io::BufWriter::with_capacity(1 << 22, Vec::new());
                let r = peppi::io::peppi::write(&mut bw, g, Some(&peppi::io::peppi::ser::Opts { compression: comp }));
                if r.is_err() || bw.get_ref() != &buf { let m = format!(".slpp written through a caller-side BufWriter: {} of {} bytes have reached the sink when write returns ({:?})", bw.get_ref().len(), buf.len(), r.err().map(|e| e.to_string())); fails.push(("C02".into(), m.clone())); fails.push(("C18".into(), m)); } }
            // history: a write that fails part-way (the caller's sink reports an error in one of the last write calls: end-of-archive marker, padding,
            // contents or header of the last members) leaves nothing behind: the next write on the same thread gives the same archive as ever
            if (k + k / 5) % 3 == 0 { let o = Some(peppi::io::peppi::ser::Opts { compression: comp });
                let g = { let mut g = slippi::read(Cursor::new(&b), Some(&read_opts(false, hash))).unwrap(); if let Some(o) = &odd_hash { g.hash = Some(o.clone()); } g }; let mut cnt = crate::suites2::ShortSink::new(1 << 30, None, 0); let _ = peppi::io::peppi::write(&mut cnt, g, o.as_ref());
                let calls = cnt.calls(); let at = calls.saturating_sub(1 + (k / 3) % 8);
                let g = { let mut g = slippi::read(Cursor::new(&b), Some(&read_opts(false, hash))).unwrap(); if let Some(o) = &odd_hash { g.hash = Some(o.clone()); } g }; let mut bad = crate::suites2::ShortSink::new(1 << 30, Some(at), 0);
                let r1 = std::panic::catch_unwind(std::panic::AssertUnwindSafe(|| peppi::io::peppi::write(&mut bad, g, o.as_ref()).is_ok()));
                if r1.is_err() { fails.push(("C06".into(), ".slpp writer panicked on a sink error".into())); }
                let g = { let mut g = slippi::read(Cursor::new(&b), Some(&read_opts(false, hash))).unwrap(); if let Some(o) = &odd_hash { g.hash = Some(o.clone()); } g }; let mut buf3 = vec![]; let r3 = peppi::io::peppi::write(&mut buf3, g, o.as_ref());
                if r3.is_err() || buf3 != buf { let m = format!("after a write that failed in sink call {} of {}, writing the game on the same thread gives a different archive ({} vs {} bytes)", at, calls, buf3.len(), buf.len()); fails.push(("C02".into(), m.clone())); fails.push(("C18".into(), m)); }
                else if let Ok(g2) = peppi::io::peppi::read(Cursor::new(&buf3), None) { let mut o2 = vec![]; if slippi::write(&mut o2, &g2).is_err() || o2 != b { fails.push(("C02".into(), "slp -> slpp -> slp differs from the original after an earlier failed write".into())); } } }
            // determinism: write the same game again (once per run across a tick of the wall clock: nothing in the archive may depend on when it is written)
            if k == 1 { std::thread::sleep(std::time::Duration::from_millis(1100)); }
            { let g = { let mut g = slippi::read(Cursor::new(&b), Some(&read_opts(false, hash))).unwrap(); if let Some(o) = &odd_hash { g.hash = Some(o.clone()); } g }; let mut buf2 = vec![]; let _ = peppi::io::peppi::write(&mut buf2, g, Some(&peppi::io::peppi::ser::Opts { compression: comp })); if buf2 != buf { fails.push(("C18".into(), "writing the same game twice gives different bytes".into())); } }
            // the same archive through sources that return short reads (pipes, decompressors): same game, whatever the piece sizes
            { let plan: Vec<usize> = match k % 5 { 0 => vec![1], 1 => vec![100], 2 => vec![511, 1, 513], 3 => vec![7, 300, 2], _ => vec![4096] };
              for skipf in [false, true] { let o = peppi::io::peppi::de::Opts { skip_frames: skipf };
                let a = peppi::io::peppi::read(Cursor::new(&buf), Some(&o)).map(|g| crate::suites2::game_sig(&g)).map_err(|e| e.to_string());
                let c = peppi::io::peppi::read(crate::suites2::Chunked::new(buf.clone(), plan.clone(), None), Some(&o)).map(|g| crate::suites2::game_sig(&g)).map_err(|e| e.to_string());
                if a != c { let m = format!(".slpp read through a source with short reads {:?} (skip_frames={}) differs from the read from memory: {:?} vs {:?}", plan, skipf, c.as_ref().map(|s| &s[..s.len().min(80)]), a.as_ref().map(|s| &s[..s.len().min(80)])); fails.push(("C02".into(), m.clone())); if skipf { fails.push(("C10".into(), m.clone())); } fails.push(("C19".into(), format!("name fields / start block of a .slpp read through short reads are not those of the archive: {}", &m[..m.len().min(200)]))); fails.push(("C05".into(), m.clone())); fails.push(("C18".into(), m)); } } }
            // back to .slp
            let mut rebuilt: Option<(Vec<u8>, Option<Vec<u8>>)> = None; // what the .slpp reader reconstructs from start.raw / end.raw, as JSON
            match peppi::io::peppi::read(Cursor::new(&buf), None) {
                Ok(g2) => { rebuilt = Some((serde_json::to_vec(&g2.start).unwrap(), g2.end.as_ref().map(|e| serde_json::to_vec(e).unwrap()))); let mut o = vec![]; if slippi::write(&mut o, &g2).is_err() || o != b { fails.push(("C02".into(), "slp -> slpp -> slp differs from the original".into())); }
                    if g2.hash != h0 { fails.push(("C02".into(), "stored hash changed through .slpp".into())); fails.push(("C11".into(), "stored hash not carried unchanged through .slpp".into())); }
                    if g2.quirks.map(|q| q.double_game_end) != q0 { fails.push(("C02".into(), "quirk flags changed through .slpp".into())); }
                    if g2.metadata != md0 { fails.push(("C16".into(), "metadata tree / key order changed through .slpp".into())); } }
                Err(e) => { fails.push(("C02".into(), format!("written .slpp cannot be read: {}", e))); fails.push(("C18".into(), format!("the reader rejects the archive the writer produced: {}", e))); if md0.is_some() { fails.push(("C16".into(), format!("the metadata tree does not survive .slp -> .slpp: the reader rejects the written archive: {}", e))); } } }
            // skip-frames option of the .slpp reader
            match peppi::io::peppi::read(Cursor::new(&buf), Some(&peppi::io::peppi::de::Opts { skip_frames: true })) {
                Ok(g3) => { if start_json(&g3.start) != start_json(&start) || end_json(&g3.end) != end_json(&endc) || g3.metadata != md0 { fails.push(("C10".into(), ".slpp skip-frames: start/end/metadata differ".into())); } if g3.frames.id.len() != 0 { fails.push(("C10".into(), ".slpp skip-frames returned frames".into())); }
                    match write_slp(&g3) { Ok(y) => if read_line(&y, false, false).1.is_none() { fails.push(("C10".into(), ".slpp skip-frames result cannot be re-read after writing".into())); }, Err(e) => fails.push(("C10".into(), format!(".slpp skip-frames result cannot be written: {}", e))) }
                    // the empty frame set is laid out like the game's (one column set per occupied port, followers included) and exports with the game's port occupancy
                    if !zero_ports { let occ = peppi::game::port_occupancy(&g3.start); let lay: Vec<(u8, bool)> = g3.frames.ports.iter().map(|p| (p.port as u8, p.follower.is_some())).collect(); let want: Vec<(u8, bool)> = occ.iter().map(|o| (o.port as u8, o.follower)).collect();
                        if lay != want { let m = format!(".slpp skip-frames: the empty frame set has ports {:?}, the game's occupancy is {:?}", lay, want); fails.push(("C10".into(), m.clone())); fails.push(("C14".into(), m)); }
                        let ver = g3.start.slippi.version; let fr = g3.frames;
                        match std::panic::catch_unwind(std::panic::AssertUnwindSafe(|| { let sa = fr.into_struct_array(ver, &occ); let mut lv = vec![]; crate::arrowdump::leaves("", arrow2::array::Array::data_type(&sa), &mut lv); (arrow2::array::Array::len(&sa), lv) })) {
                            Err(_) => { fails.push(("C14".into(), "the frames of a .slpp skip-frames read cannot be exported with the game's port occupancy (panic)".into())); fails.push(("C10".into(), "the empty frame set of a .slpp skip-frames read cannot be exported".into())); }
                            Ok((rows, lv)) => { if rows != 0 || lv != spec::arrow_leaves(r.v, &slots_of(&r.start_block)) { fails.push(("C14".into(), format!("the frames of a .slpp skip-frames read export to {} rows / another schema than the version's field table", rows))); } } } } }
                Err(e) => fails.push(("C10".into(), format!(".slpp skip-frames read failed: {}", e))) }
            let mut parts = vec![]; let mut names = vec![]; let mut ipc_dump: Option<String> = None;
            for e in tar::Archive::new(Cursor::new(&buf)).entries().unwrap() {
                let mut e = e.unwrap(); let name = e.path().unwrap().to_string_lossy().to_string(); let mut c = vec![]; e.read_to_end(&mut c).unwrap();
                names.push(name.clone());
                let content = match name.as_str() {
                    "peppi.json" => { if serde_json::from_slice::<serde_json::Value>(&c).is_err() { fails.push(("C18".into(), "peppi.json is not valid JSON".into())); } String::from_utf8(c).unwrap() }
                    "metadata.json" => { match serde_json::from_slice::<serde_json::Value>(&c) { Ok(serde_json::Value::Object(m)) => { if Some(&m) != md0.as_ref() { fails.push(("C16".into(), "metadata.json is not the metadata tree".into())); } format!("{{{}}}", json_dump(&m)) } Ok(_) => "null".into(), Err(_) => { fails.push(("C18".into(), "metadata.json is not valid JSON".into())); "?".into() } } }
                    "start.json" => { let mut o2 = vec![]; let s = canon_start(&start, &start.bytes.0, &mut o2); if c != serde_json::to_vec(&start).unwrap() || serde_json::from_slice::<serde_json::Value>(&c).is_err() { fails.push(("C18".into(), "start.json is not the JSON rendering of the start block".into())); }
                        if let Some((sj, _)) = &rebuilt { if &c != sj { fails.push(("C18".into(), "start.json is not the JSON rendering of what the .slpp reader reconstructs from start.raw".into())); } } s }
                    "end.json" => { if Some(c.clone()) != endc.as_ref().map(|e| serde_json::to_vec(e).unwrap()) { fails.push(("C18".into(), "end.json is not the JSON rendering of the end block".into())); }
                        if let Some((_, ej)) = &rebuilt { if Some(&c) != ej.as_ref() { fails.push(("C18".into(), format!("end.json ({}) is not the JSON rendering of what the .slpp reader reconstructs from end.raw ({})", String::from_utf8_lossy(&c), ej.as_ref().map_or("none".to_string(), |x| String::from_utf8_lossy(x).to_string())))); } }
                        canon_end(endc.as_ref().unwrap()) }
                    "frames.arrow" => { let mut rd = Cursor::new(&c[8..]); let md = read_stream_metadata(&mut rd).unwrap(); let mut sr = StreamReader::new(rd, md, None);
                        match sr.next() { Some(Ok(StreamState::Some(chunk))) => { ipc_dump = Some(crate::arrowdump::dump_af(chunk.arrays()[0].as_ref())); crate::arrowdump::dump(chunk.arrays()[0].as_ref()) } _ => "?".into() } }
                    _ => hex(&c),
                };
                parts.push(format!("{}={}", name, content));
            }
            let mut exp: Vec<&str> = vec!["peppi.json", "metadata.json", "start.json", "start.raw"];
            if endc.is_some() { exp.push("end.json"); exp.push("end.raw"); } if has_gecko { exp.push("gecko_codes.raw"); } if nframes > 0 { exp.push("frames.arrow"); }
            if names != exp { fails.push(("C18".into(), format!("entries {:?} != {:?}", names, exp))); }
            if let Some(d) = ipc_dump { extra = Some(d); }
            Ok(format!("ok {}", parts.join("|")))
        }));
        let line = match res { Err(_) => { if zero_ports && !r.frames.is_empty() { fails.push(("C02".into(), "KNOWN:zero-ports panic in peppi::write (no occupied port)".into())); } else { fails.push(("C02".into(), "panic in the .slpp writer/reader".into())); fails.push(("C18".into(), "panic in the .slpp writer".into())); } "panic".to_string() }, Ok(Err(e)) => { if !deep.map_or(false, |d| d > 127) { fails.push(("C02".into(), "well-formed replay could not be converted to .slpp".into())); } e }, Ok(Ok(s)) => s };
        let hs = if let Some(o) = &odd_hash { o.clone() } else if hash { format!("xxh3:{:016x}", xxhash_rust::xxh3::xxh3_64(&b)) } else { "-".to_string() };
        let mut c = Case::new(format!("pwrite 1 {} {}", hs, hex(&b)), line); c.oracle = fails; c.tags = tags; c.tags.push(format!("comp{}", k % 3));
        ctx.push(c);
        // the struct array read back from the IPC stream, against the proof-level Arrow model (export + validity normalisation), column by column
        if let Some(d) = extra { let mut c = Case::new(format!("intoa {}", hex(&b)), format!("ok {}", d)); c.tags = vec![format!("ipc-array comp{}", k % 3)]; ctx.push(c); }
    }
}
