//! pv — differential harness: generates cases, runs the real peppi, pipes the same cases to the Lean
//! driver, compares, and runs the implementation-level oracles.  One JSON report per invocation.
mod gen; mod dump; mod suites; mod arrowdump;
use std::io::Write;
use std::process::{Command, Stdio};

pub struct Case { pub line: String, pub impl_out: String, pub oracle_fail: Option<String>, pub tags: Vec<String> }

fn main() {
    std::panic::set_hook(Box::new(|_| {}));
    let args: Vec<String> = std::env::args().collect();
    if args.len() < 6 { eprintln!("usage: pv run <suite,suite,..> <seed> <n> <driver> <outdir>"); std::process::exit(2); }
    let suites: Vec<&str> = args[2].split(',').collect();
    let seed: u64 = args[3].parse().unwrap(); let n: usize = args[4].parse().unwrap();
    let driver = &args[5]; let outdir = &args[6];
    std::fs::create_dir_all(outdir).unwrap();
    let mut cases: Vec<Case> = vec![];
    for s in &suites { suites::run(s, seed, n, &mut cases); }
    // pipe to the model
    let mut child = Command::new(driver).stdin(Stdio::piped()).stdout(Stdio::piped()).spawn().expect("driver");
    { let mut stdin = child.stdin.take().unwrap(); let lines: String = cases.iter().map(|c| c.line.clone() + "\n").collect();
      std::thread::spawn(move || { let _ = stdin.write_all(lines.as_bytes()); }); }
    let out = child.wait_with_output().unwrap();
    let model: Vec<String> = String::from_utf8_lossy(&out.stdout).lines().map(|s| s.to_string()).collect();
    let canon = |s: &str| if s.starts_with("err") { "err".to_string() } else { s.to_string() };
    let mut disagreements = vec![]; let mut oracle_failures = vec![]; let mut distinct = std::collections::BTreeSet::new();
    let mut tags: std::collections::BTreeMap<String, usize> = Default::default();
    for (i, c) in cases.iter().enumerate() {
        let m = model.get(i).map(|s| s.as_str()).unwrap_or("<missing>");
        if canon(m) != canon(&c.impl_out) { disagreements.push(serde_json::json!({"index": i, "case": c.line.chars().take(20000).collect::<String>(), "impl": c.impl_out, "model": m})); }
        if let Some(f) = &c.oracle_fail { oracle_failures.push(serde_json::json!({"index": i, "case": c.line.chars().take(20000).collect::<String>(), "what": f})); }
        if !c.impl_out.starts_with("err") { distinct.insert(c.impl_out.clone()); }
        for t in &c.tags { *tags.entry(t.clone()).or_default() += 1; }
    }
    let samples: Vec<String> = cases.iter().step_by((cases.len() / 5).max(1)).take(5).map(|c| format!("{} => {}", c.line.chars().take(160).collect::<String>(), c.impl_out.chars().take(160).collect::<String>())).collect();
    let report = serde_json::json!({ "suites": suites, "seed": seed, "evaluations": cases.len(), "distinct_nontrivial": distinct.len(),
        "disagreements": disagreements, "oracle_failures": oracle_failures, "distribution": tags, "samples": samples, "model_lines": model.len() });
    std::fs::write(format!("{}/report.json", outdir), serde_json::to_string_pretty(&report).unwrap()).unwrap();
    println!("cases={} disagreements={} oracle_failures={}", cases.len(), report["disagreements"].as_array().unwrap().len(), report["oracle_failures"].as_array().unwrap().len());
}
