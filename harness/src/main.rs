//! pv — correspondence harness.  `pv gen <suite> <seed> <n> <tier> <out.jsonl> [progress]` generates the
//! cases of one suite from one PRNG state, runs the real peppi on each (in-process, under
//! `catch_unwind`), evaluates the implementation-level oracles, and writes one JSON object per case:
//! `{"line": <model driver input>, "impl": <canonical result>, "oracle": [[prop, msg]..], "tags": [..]}`.
//! The check driver (bin/check) pipes the `line`s to the Lean driver and compares.
mod arrowdump; mod dump; mod gen; mod spec; mod suites; mod suites2;
use std::io::Write;

pub struct Case { pub line: String, pub impl_out: String, pub oracle: Vec<(String, String)>, pub tags: Vec<String> }
impl Case {
    pub fn new(line: String, impl_out: String) -> Case { Case { line, impl_out, oracle: vec![], tags: vec![] } }
    pub fn fail(&mut self, prop: &str, msg: impl Into<String>) { self.oracle.push((prop.to_string(), msg.into())); }
}

pub struct Ctx { pub seed: u64, pub n: usize, pub thorough: bool, out: std::io::BufWriter<std::fs::File>, progress: Option<String>, pub count: usize, beat: std::sync::Arc<std::sync::atomic::AtomicU64> }
fn now() -> u64 { std::time::SystemTime::now().duration_since(std::time::UNIX_EPOCH).unwrap().as_secs() }
impl Ctx {
    /// record the input about to be run, so that an abort / hang of the process can be attributed
    pub fn starting(&mut self, what: &str) {
        if let Some(p) = &self.progress { let _ = std::fs::write(p, what); }
        self.beat.store(now(), std::sync::atomic::Ordering::Relaxed);
    }
    pub fn push(&mut self, c: Case) {
        // an empty trailing argument would vanish when the driver splits the line on spaces
        let c = if c.line.ends_with(' ') { Case { line: format!("{}-", c.line), ..c } } else { c };
        let j = serde_json::json!({"line": c.line, "impl": c.impl_out, "oracle": c.oracle, "tags": c.tags});
        writeln!(self.out, "{}", j).unwrap(); self.out.flush().unwrap(); self.count += 1;
        BASE.store(self.count % 2 == 1, std::sync::atomic::Ordering::Relaxed); logging(false);
        self.beat.store(now(), std::sync::atomic::Ordering::Relaxed);
    }
}

/// a logger that formats every record and throws it away: with it installed (and the level raised), the library's `debug!` / `info!` /
/// `warn!` arguments are evaluated — the result of a call must not depend on whether anybody listens
struct Sink;
impl log::Log for Sink { fn enabled(&self, _: &log::Metadata) -> bool { true } fn log(&self, r: &log::Record) { let _ = format!("{}", r.args()); } fn flush(&self) {} }
static SINK: Sink = Sink;
/// every other case of every suite runs with the logger listening (`BASE`); single reads may raise it on their own
static BASE: std::sync::atomic::AtomicBool = std::sync::atomic::AtomicBool::new(false);
pub fn logging(on: bool) { log::set_max_level(if on || BASE.load(std::sync::atomic::Ordering::Relaxed) { log::LevelFilter::Trace } else { log::LevelFilter::Off }); }

fn main() {
    if std::env::var("PV_PANIC").is_err() { std::panic::set_hook(Box::new(|_| {})); }
    let _ = log::set_logger(&SINK); logging(false);
    let args: Vec<String> = std::env::args().collect();
    // development aid: `pv rtfile <file.slp>` reads a file, writes it back and reports declared vs actual raw length and the re-read
    if args.len() == 3 && args[1] == "rtfile" { let b = std::fs::read(&args[2]).unwrap();
        match peppi::io::slippi::read(std::io::Cursor::new(&b), None) { Err(e) => println!("read: err {}", e),
            Ok(g) => { println!("read: ok frames={}", g.frames.id.len()); let mut o = vec![];
                match peppi::io::slippi::write(&mut o, &g) { Err(e) => println!("write: err {}", e),
                    Ok(()) => { let decl = u32::from_be_bytes([o[11], o[12], o[13], o[14]]) as usize; println!("write: ok len={} same={} declared_raw={} bytes_after_header={}", o.len(), o == b, decl, o.len() - 15);
                        match peppi::io::slippi::read(std::io::Cursor::new(&o), None) { Err(e) => println!("reread: err {}", e), Ok(g2) => println!("reread: ok frames={}", g2.frames.id.len()) } } } } }
        return; }
    if args.len() < 7 || args[1] != "gen" { eprintln!("usage: pv gen <suite> <seed> <n> <quick|thorough> <out.jsonl> [progress-file]"); std::process::exit(2); }
    let suite = args[2].clone(); let seed: u64 = args[3].parse().unwrap(); let n: usize = args[4].parse().unwrap();
    let thorough = args[5] == "thorough";
    let out = std::io::BufWriter::new(std::fs::File::create(&args[6]).unwrap());
    let beat = std::sync::Arc::new(std::sync::atomic::AtomicU64::new(now()));
    let mut ctx = Ctx { seed, n, thorough, out, progress: args.get(7).cloned(), count: 0, beat: beat.clone() };
    // big recursion (deep metadata) must not be mistaken for a harness problem: run on a thread with the
    // default main-thread stack size (8 MiB), like a user's `main`
    let h = std::thread::Builder::new().stack_size(8 << 20).spawn(move || { suites::run(&suite, &mut ctx); ctx.out.flush().unwrap(); ctx.count }).unwrap();
    // watchdog: the code under test may block or loop without consuming input; a case that shows no sign of life for
    // PV_CASE_TIMEOUT seconds (default 60) is reported (exit code 3) with the input named in the progress file
    let limit: u64 = std::env::var("PV_CASE_TIMEOUT").ok().and_then(|s| s.parse().ok()).unwrap_or(60);
    while !h.is_finished() {
        std::thread::sleep(std::time::Duration::from_millis(200));
        if now().saturating_sub(beat.load(std::sync::atomic::Ordering::Relaxed)) > limit { eprintln!("HANG: no progress for {} s", limit); std::process::exit(3); }
    }
    let count = match h.join() { Ok(c) => c, Err(_) => { eprintln!("harness thread panicked"); std::process::exit(4); } };
    println!("cases={}", count);
}
