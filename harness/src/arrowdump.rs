// Generic, name-addressed dump of an Arrow array tree (schema + validity + value checksums).
use arrow2::array::{Array, ListArray, PrimitiveArray, StructArray};
use arrow2::datatypes::DataType;

fn valid(v: Option<&arrow2::bitmap::Bitmap>) -> String { match v { None => "-".into(), Some(b) => b.iter().map(|x| if x { '1' } else { '0' }).collect() } }
fn sum(vals: impl Iterator<Item = u64>) -> u64 { vals.fold(7u64, |a, x| (a * 31 + x) % 1000000007) }

pub fn dump(a: &dyn Array) -> String {
    match a.data_type() {
        DataType::Struct(fields) => {
            let s = a.as_any().downcast_ref::<StructArray>().unwrap();
            let kids: Vec<String> = fields.iter().zip(s.values()).map(|(f, c)| format!("{}{}={}", f.name, if f.is_nullable { "?" } else { "" }, dump(c.as_ref()))).collect();
            format!("struct[{}|{}]{{{}}}", s.len(), valid(s.validity()), kids.join(";"))
        }
        DataType::List(inner) => {
            let l = a.as_any().downcast_ref::<ListArray<i32>>().unwrap();
            format!("list[{}|{}|{}]<{}={}>", l.len(), valid(l.validity()), l.offsets().iter().map(|x| x.to_string()).collect::<Vec<_>>().join(","), inner.name, dump(l.values().as_ref()))
        }
        DataType::UInt8 => { let p = a.as_any().downcast_ref::<PrimitiveArray<u8>>().unwrap(); format!("u8[{}|{}|{}]", p.len(), valid(p.validity()), sum(p.values().iter().map(|x| *x as u64))) }
        DataType::Int8 => { let p = a.as_any().downcast_ref::<PrimitiveArray<i8>>().unwrap(); format!("i8[{}|{}|{}]", p.len(), valid(p.validity()), sum(p.values().iter().map(|x| *x as u8 as u64))) }
        DataType::UInt16 => { let p = a.as_any().downcast_ref::<PrimitiveArray<u16>>().unwrap(); format!("u16[{}|{}|{}]", p.len(), valid(p.validity()), sum(p.values().iter().map(|x| *x as u64))) }
        DataType::UInt32 => { let p = a.as_any().downcast_ref::<PrimitiveArray<u32>>().unwrap(); format!("u32[{}|{}|{}]", p.len(), valid(p.validity()), sum(p.values().iter().map(|x| *x as u64))) }
        DataType::Int32 => { let p = a.as_any().downcast_ref::<PrimitiveArray<i32>>().unwrap(); format!("i32[{}|{}|{}]", p.len(), valid(p.validity()), sum(p.values().iter().map(|x| *x as u32 as u64))) }
        DataType::Float32 => { let p = a.as_any().downcast_ref::<PrimitiveArray<f32>>().unwrap(); format!("f32[{}|{}|{}]", p.len(), valid(p.validity()), sum(p.values().iter().map(|x| x.to_bits() as u64))) }
        t => format!("?{:?}", t),
    }
}

/// leaf paths of an Arrow type with their primitive types: `ports.P1.leader.pre.position.x:f32`
pub fn leaves(prefix: &str, t: &DataType, out: &mut Vec<String>) {
    match t {
        DataType::Struct(fields) => for f in fields { let p = if prefix.is_empty() { f.name.clone() } else { format!("{}.{}", prefix, f.name) }; leaves(&p, &f.data_type, out); },
        DataType::List(inner) => { let p = format!("{}[]", prefix); leaves(&p, &inner.data_type, out); }
        DataType::UInt8 => out.push(format!("{}:u8", prefix)), DataType::Int8 => out.push(format!("{}:i8", prefix)), DataType::UInt16 => out.push(format!("{}:u16", prefix)),
        DataType::UInt32 => out.push(format!("{}:u32", prefix)), DataType::Int32 => out.push(format!("{}:i32", prefix)), DataType::Float32 => out.push(format!("{}:f32", prefix)),
        t => out.push(format!("{}:?{:?}", prefix, t)),
    }
}

/// the values (bit patterns, nulls included as stored) of the primitive column at a dotted path of struct member names
pub fn leaf_values(a: &dyn Array, path: &str) -> Option<Vec<u64>> {
    let mut cur: Box<dyn Array> = a.to_boxed();
    for name in path.split('.') {
        let next = { let s = cur.as_any().downcast_ref::<StructArray>()?; let i = s.fields().iter().position(|f| f.name == name)?; s.values()[i].clone() };
        cur = next;
    }
    Some(match cur.data_type() {
        DataType::UInt8 => cur.as_any().downcast_ref::<PrimitiveArray<u8>>()?.values().iter().map(|x| *x as u64).collect(),
        DataType::Int8 => cur.as_any().downcast_ref::<PrimitiveArray<i8>>()?.values().iter().map(|x| *x as u8 as u64).collect(),
        DataType::UInt16 => cur.as_any().downcast_ref::<PrimitiveArray<u16>>()?.values().iter().map(|x| *x as u64).collect(),
        DataType::UInt32 => cur.as_any().downcast_ref::<PrimitiveArray<u32>>()?.values().iter().map(|x| *x as u64).collect(),
        DataType::Int32 => cur.as_any().downcast_ref::<PrimitiveArray<i32>>()?.values().iter().map(|x| *x as u32 as u64).collect(),
        DataType::Float32 => cur.as_any().downcast_ref::<PrimitiveArray<f32>>()?.values().iter().map(|x| x.to_bits() as u64).collect(),
        _ => return None,
    })
}

// ---- nameless structural dump of the frame struct array, in the format of the Lean proof model (`dumpAF`)
fn leaf_sums(a: &dyn Array, out: &mut Vec<String>) {
    match a.data_type() {
        DataType::Struct(_) => { let s = a.as_any().downcast_ref::<StructArray>().unwrap(); for c in s.values() { leaf_sums(c.as_ref(), out); } }
        _ => { let n = a.len(); let path_vals = |a: &dyn Array| -> Vec<u64> { match a.data_type() {
                DataType::UInt8 => a.as_any().downcast_ref::<PrimitiveArray<u8>>().unwrap().values().iter().map(|x| *x as u64).collect(),
                DataType::Int8 => a.as_any().downcast_ref::<PrimitiveArray<i8>>().unwrap().values().iter().map(|x| *x as u8 as u64).collect(),
                DataType::UInt16 => a.as_any().downcast_ref::<PrimitiveArray<u16>>().unwrap().values().iter().map(|x| *x as u64).collect(),
                DataType::UInt32 => a.as_any().downcast_ref::<PrimitiveArray<u32>>().unwrap().values().iter().map(|x| *x as u64).collect(),
                DataType::Int32 => a.as_any().downcast_ref::<PrimitiveArray<i32>>().unwrap().values().iter().map(|x| *x as u32 as u64).collect(),
                DataType::Float32 => a.as_any().downcast_ref::<PrimitiveArray<f32>>().unwrap().values().iter().map(|x| x.to_bits() as u64).collect(),
                _ => vec![u64::MAX; n] } };
            out.push(sum(path_vals(a).into_iter()).to_string()); }
    }
}
fn a_struct(a: &dyn Array) -> String { let s = a.as_any().downcast_ref::<StructArray>().unwrap(); let mut sums = vec![]; leaf_sums(a, &mut sums); format!("S[{}|{}|{}]", s.len(), valid(s.validity()), sums.join(",")) }
fn a_data(a: &dyn Array) -> String { let s = a.as_any().downcast_ref::<StructArray>().unwrap(); let f = |n: &str| { let i = s.fields().iter().position(|f| f.name == n).unwrap(); s.values()[i].clone() };
    format!("D[{}]{{{};{}}}", valid(s.validity()), a_struct(f("pre").as_ref()), a_struct(f("post").as_ref())) }
pub fn dump_af(a: &dyn Array) -> String {
    let s = a.as_any().downcast_ref::<StructArray>().unwrap();
    let get = |n: &str| s.fields().iter().position(|f| f.name == n).map(|i| s.values()[i].clone());
    let id = get("id").unwrap(); let idv = id.as_any().downcast_ref::<PrimitiveArray<i32>>().unwrap();
    let ports = get("ports").unwrap(); let ps = ports.as_any().downcast_ref::<StructArray>().unwrap();
    let pd: Vec<String> = ps.fields().iter().zip(ps.values()).map(|(f, c)| { let p = c.as_any().downcast_ref::<StructArray>().unwrap(); let g = |n: &str| p.fields().iter().position(|f| f.name == n).map(|i| p.values()[i].clone());
        format!("P{}{{L={};F={}}}", f.name[1..].parse::<usize>().unwrap() - 1, a_data(g("leader").unwrap().as_ref()), g("follower").map_or("-".to_string(), |x| a_data(x.as_ref()))) }).collect();
    let item = get("item").map_or("-".to_string(), |l| { let l = l.as_any().downcast_ref::<ListArray<i32>>().unwrap(); format!("{}|{}", l.offsets().iter().map(|x| x.to_string()).collect::<Vec<_>>().join(","), a_struct(l.values().as_ref())) });
    format!("F[{}|{}]{{{}}}start={};end={};item={}", s.len(), sum(idv.values().iter().map(|x| *x as u32 as u64)), pd.join(";"), get("start").map_or("-".to_string(), |x| a_struct(x.as_ref())), get("end").map_or("-".to_string(), |x| a_struct(x.as_ref())), item)
}
