// Independent synthetic .slp builder (spec tables written from the Slippi spec, not from peppi).
pub type V = (u8, u8, u8);
pub fn gte(v: V, a: u8, b: u8) -> bool { v.0 > a || (v.0 == a && v.1 >= b) }

pub fn pre_size(v: V) -> usize { let mut s = 0x3B - 1; // incl. frame(4)+port+follower = 6, fields up to 0x3A
    // offsets are absolute incl. command byte; payload size = last offset - 1
    if gte(v,1,2) { s += 1 } if gte(v,1,4) { s += 4 } if gte(v,3,15) { s += 1 } s }
pub fn post_size(v: V) -> usize { let mut s = 0x22 - 1;
    if gte(v,0,2) { s += 4 } if gte(v,2,0) { s += 5+4+1+2+1+1 } if gte(v,2,1) { s += 1 }
    if gte(v,3,5) { s += 20 } if gte(v,3,8) { s += 4 } if gte(v,3,11) { s += 4 } if gte(v,3,16) { s += 4 } s }
pub fn fstart_size(v: V) -> usize { let mut s = 8; if gte(v,3,10) { s += 4 } s }
pub fn item_size(v: V) -> usize { let mut s = 0x26 - 1; if gte(v,3,2) { s += 4 } if gte(v,3,6) { s += 1 } if gte(v,3,16) { s += 2 } s }
pub fn fend_size(v: V) -> usize { let mut s = 4; if gte(v,3,7) { s += 4 } s }
pub fn gstart_size(v: V) -> usize {
    let mut s = 0x141 - 1;
    if gte(v,1,0) { s += 32 } if gte(v,1,3) { s += 64 } if gte(v,1,5) { s += 1 } if gte(v,2,0) { s += 1 }
    if gte(v,3,7) { s += 2 } if gte(v,3,9) { s += 4*31 + 4*10 } if gte(v,3,11) { s += 4*29 } if gte(v,3,12) { s += 1 }
    if gte(v,3,14) { s += 51 + 8 } s }
pub fn gend_size(v: V) -> usize { if gte(v,3,13) { 6 } else if gte(v,2,0) { 2 } else { 1 } }

#[derive(Clone, Default)]
pub struct CharEv { pub pre: Vec<u8>, pub post: Vec<u8> } // field bytes after the 6-byte header
#[derive(Clone, Default)]
pub struct FrameSpec {
    pub id: i32,
    pub start: Vec<u8>, // after frame id
    pub chars: Vec<(u8, bool, Option<CharEv>)>, // (port, follower, present)
    pub items: Vec<Vec<u8>>,
    pub end: Vec<u8>,
}
#[derive(Clone, Default)]
pub struct Replay {
    pub v: V,
    pub start_block: Vec<u8>,
    pub gecko: Option<(Vec<u8>, u32)>,
    pub frames: Vec<FrameSpec>,
    pub end: Option<Vec<u8>>,
    pub double_end: bool,
    pub metadata: Option<Vec<u8>>, // ubjson map body without closing brace
    pub extra_payloads: Vec<(u8, u16)>,
}

pub struct Rng(pub u64);
impl Rng { pub fn next(&mut self) -> u64 { self.0 ^= self.0 << 13; self.0 ^= self.0 >> 7; self.0 ^= self.0 << 17; self.0 }
    pub fn nbytes(&mut self, m: u64) -> Vec<u8> { let n = (self.next() % m) as usize; self.bytes(n) }
    pub fn nbytes1(&mut self, m: u64) -> Vec<u8> { let n = 1 + (self.next() % m) as usize; self.bytes(n) }
    pub fn bytes(&mut self, n: usize) -> Vec<u8> { (0..n).map(|_| (self.next() >> 24) as u8).collect() } }

pub fn start_block(v: V, players: &[(u8, u8, u8)], /* (port, type, char) */ rng: &mut Rng) -> Vec<u8> {
    let n = gstart_size(v);
    let mut b = vec![0u8; n];
    b[0] = v.0; b[1] = v.1; b[2] = v.2; b[3] = 0; for i in 320..n { b[i] = 0; }
    for i in 4..0x140.min(n) { b[i] = (rng.next() >> 24) as u8; }
    // all six player slots empty (type 3) by default
    for p in 0..6 { let o = 0x64 + p * 0x24; b[o + 1] = 3; }
    for &(port, ty, ch) in players { let o = 0x64 + (port as usize) * 0x24; b[o] = ch; b[o + 1] = ty; }
    // v1.0 ucf: zeros (None). name tags etc zero. language 0/1
    if gte(v,3,12) { b[0x2BD - 1] = 1; }
    b
}

/// extra trailing bytes appended to known events' payloads (C08 "newer version, longer payloads")
#[derive(Clone, Copy, Default)]
pub struct Pad { pub gstart: usize, pub pre: usize, pub post: usize, pub gend: usize, pub fstart: usize, pub item: usize, pub fend: usize }
fn pad_bytes(n: usize, salt: usize) -> Vec<u8> { (0..n).map(|i| (0xA5usize ^ (i * 7 + salt * 13)) as u8).collect() }

/// the canonical payload-size table
pub fn table(r: &Replay, pad: &Pad) -> Vec<(u8, u16)> {
    let v = r.v;
    let mut sizes: Vec<(u8, u16)> = vec![
        (0x36, (r.start_block.len() + pad.gstart) as u16), (0x37, (pre_size(v) + pad.pre) as u16), (0x38, (post_size(v) + pad.post) as u16),
        (0x39, (r.end.as_ref().map_or(gend_size(v), |e| e.len()) + pad.gend) as u16)];
    if gte(v,2,2) { sizes.push((0x3A, (fstart_size(v) + pad.fstart) as u16)); }
    if gte(v,3,0) { sizes.push((0x3B, (item_size(v) + pad.item) as u16)); sizes.push((0x3C, (fend_size(v) + pad.fend) as u16)); }
    if let Some((_, actual)) = &r.gecko { sizes.push((0x3D, *actual as u16)); sizes.push((0x10, 516)); }
    sizes.extend(r.extra_payloads.iter().cloned());
    sizes
}

/// the events of one frame in the recorder's canonical order, each with its command byte
pub fn frame_events(r: &Replay, f: &FrameSpec, pad: &Pad) -> Vec<Vec<u8>> {
    let v = r.v; let mut evs = vec![];
    let ev = |code: u8, parts: &[&[u8]], p: usize, salt: usize| { let mut e = vec![code]; for x in parts { e.extend_from_slice(x); } e.extend(pad_bytes(p, salt)); e };
    let id = f.id.to_be_bytes();
    if gte(v,2,2) { evs.push(ev(0x3A, &[&id, &f.start], pad.fstart, 1)); }
    for (port, fol, c) in &f.chars { if let Some(c) = c { evs.push(ev(0x37, &[&id, &[*port, *fol as u8], &c.pre], pad.pre, 2)); } }
    if gte(v,3,0) { for it in &f.items { evs.push(ev(0x3B, &[&id, it], pad.item, 3)); } }
    for (port, fol, c) in &f.chars { if let Some(c) = c { evs.push(ev(0x38, &[&id, &[*port, *fol as u8], &c.post], pad.post, 4)); } }
    if gte(v,3,0) { evs.push(ev(0x3C, &[&id, &f.end], pad.fend, 5)); }
    evs
}

/// file = header ‖ raw (table, Game Start, Gecko blocks, `body` events, Game End(s), `junk`) ‖ metadata ‖ `}`
pub fn assemble(r: &Replay, sizes: &[(u8, u16)], body: &[Vec<u8>], junk: &[u8], pad: &Pad) -> Vec<u8> {
    let mut raw = vec![0x35, (sizes.len() * 3 + 1) as u8];
    for (c, s) in sizes { raw.push(*c); raw.extend(s.to_be_bytes()); }
    raw.push(0x36); raw.extend(&r.start_block); raw.extend(pad_bytes(pad.gstart, 6));
    for e in body { raw.extend(e); }
    if let Some(e) = &r.end { raw.push(0x39); raw.extend(e); raw.extend(pad_bytes(pad.gend, 7)); if r.double_end { raw.push(0x39); raw.extend(e); raw.extend(pad_bytes(pad.gend, 7)); } }
    raw.extend(junk);
    let mut out = vec![0x7b, 0x55, 0x03, 0x72, 0x61, 0x77, 0x5b, 0x24, 0x55, 0x23, 0x6c];
    out.extend((raw.len() as u32).to_be_bytes());
    out.extend(raw);
    if let Some(m) = &r.metadata { out.extend([0x55, 0x08, 0x6d, 0x65, 0x74, 0x61, 0x64, 0x61, 0x74, 0x61, 0x7b]); out.extend(m); out.push(0x7d); }
    out.push(0x7d);
    out
}

/// the message-splitter blocks carrying the Gecko codes, one event each
pub fn gecko_events(r: &Replay) -> Vec<Vec<u8>> {
    let mut out = vec![];
    if let Some((bytes, actual)) = &r.gecko {
        let mut pos = 0usize; let actual = *actual as usize;
        while pos < actual { let mut e = vec![0x10]; e.extend(&bytes[pos..pos+512]);
            e.extend(((512.min(actual - pos)) as u16).to_be_bytes()); e.push(0x3D); pos += 512; e.push((pos >= actual) as u8); out.push(e); }
    }
    out
}
/// everything between Game Start and Game End: Gecko blocks, then the frames
pub fn body_events(r: &Replay, pad: &Pad) -> Vec<Vec<u8>> { gecko_events(r).into_iter().chain(r.frames.iter().flat_map(|f| frame_events(r, f, pad))).collect() }
pub fn encode(r: &Replay) -> Vec<u8> { let pad = Pad::default(); assemble(r, &table(r, &pad), &body_events(r, &pad), &[], &pad) }
pub fn encode_padded(r: &Replay, pad: &Pad) -> Vec<u8> { assemble(r, &table(r, pad), &body_events(r, pad), &[], pad) }

/// occupied character slots of a start block in column order: (port, is_follower)
pub fn slots_of(start_block: &[u8]) -> Vec<(u8, bool)> {
    let mut out = vec![];
    for p in 0..4usize { let o = 0x64 + p * 0x24; if start_block[o + 1] <= 2 { out.push((p as u8, false)); if start_block[o] == 14 { out.push((p as u8, true)); } } }
    out
}

/// values that are interesting for 32-bit fields: NaN payloads, infinities, extremes
pub const DICT: [[u8; 4]; 10] = [[0,0,0,0],[0xff,0xff,0xff,0xff],[0x7f,0xc0,0,1],[0x7f,0x80,0,1],[0x7f,0x80,0,0],[0xff,0x80,0,0],[0x80,0,0,0],[0x7f,0xff,0xff,0xff],[0xff,0xc1,0x23,0x45],[0,0,0,1]];
pub fn spice(rng: &mut Rng, b: &mut Vec<u8>) {
    if b.len() < 4 { return; }
    for _ in 0..(rng.next() % 3) { let i = (rng.next() as usize) % (b.len() - 3); let d = DICT[(rng.next() % 10) as usize]; b[i..i+4].copy_from_slice(&d); }
}

pub fn simple(v: V, players: &[(u8, u8, u8)], nframes: usize, absent: &[(usize, usize)], rng: &mut Rng) -> Replay {
    let sb = start_block(v, players, rng);
    let mut chars_tpl: Vec<(u8, bool)> = vec![];
    for &(port, _, ch) in players { chars_tpl.push((port, false)); if ch == 14 { chars_tpl.push((port, true)); } }
    let mut frames = vec![];
    for i in 0..nframes {
        let mut f = FrameSpec { id: -123 + i as i32, ..Default::default() };
        if gte(v,2,2) { f.start = rng.bytes(fstart_size(v) - 4); }
        for (ci, &(port, fol)) in chars_tpl.iter().enumerate() {
            let present = !absent.contains(&(i, ci));
            f.chars.push((port, fol, present.then(|| { let mut pre = rng.bytes(pre_size(v) - 6); let mut post = rng.bytes(post_size(v) - 6); spice(rng, &mut pre); spice(rng, &mut post); CharEv { pre, post } })));
        }
        if gte(v,3,0) { let n = (rng.next() % 3) as usize; for _ in 0..n { f.items.push(rng.bytes(item_size(v) - 4)); } f.end = rng.bytes(fend_size(v) - 4); }
        frames.push(f);
    }
    let mut end = vec![2u8]; if gte(v,2,0) { end.push(255); } if gte(v,3,13) { end.extend([0u8, 1, 255, 255]); }
    Replay { v, start_block: sb, gecko: None, frames, end: Some(end), double_end: false,
        metadata: Some(b"U\x07startAtSU\x0a2020-01-01U\x09lastFramel\x00\x00\x01\x00".to_vec()), extra_payloads: vec![] }
}
