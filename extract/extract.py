#!/usr/bin/env python3
"""Prototype translator: generated Rust (src/frame/*) -> per-function field views."""
import re, sys, json
REPO = sys.argv[1] if len(sys.argv) > 1 else '/repo'
PRIMS = {'u8','i8','u16','u32','i32','f32'}
STRUCTS = ['End','Item','ItemMisc','Position','Post','Pre','Start','StateFlags','TriggersPhysical','Velocities','Velocity']
ARROW_T = {'UInt8':'u8','Int8':'i8','UInt16':'u16','UInt32':'u32','Int32':'i32','Float32':'f32'}

class XErr(Exception): pass

def tokenize(src):
    src = re.sub(r'//[^\n]*', '', src)
    src = re.sub(r'/\*.*?\*/', '', src, flags=re.S)
    toks = re.findall(r'"(?:[^"\\]|\\.)*"|r#[A-Za-z_][A-Za-z_0-9]*|[A-Za-z_][A-Za-z_0-9]*|\d+|::|->|=>|\|\||&&|\+=|\.\.|[^\sA-Za-z_0-9]', src)
    return toks

def match_brace(toks, i):
    """toks[i] == '{' -> index of matching '}'"""
    assert toks[i] == '{', toks[i:i+5]
    d = 0
    for j in range(i, len(toks)):
        if toks[j] == '{': d += 1
        elif toks[j] == '}':
            d -= 1
            if d == 0: return j
    raise XErr('unbalanced braces')

def find_impls(toks):
    """yield (header tokens, body tokens) of every `impl ... { ... }` and `pub struct X { ... }`"""
    i = 0; out = []
    while i < len(toks):
        if toks[i] in ('impl',) or (toks[i] == 'struct'):
            j = i
            while toks[j] not in ('{', ';', '('): j += 1
            if toks[j] == '{':
                k = match_brace(toks, j)
                out.append((toks[i:j], toks[j+1:k])); i = k + 1; continue
            elif toks[j] == '(':   # tuple struct
                k = j; d = 0
                while True:
                    if toks[k] == '(': d += 1
                    if toks[k] == ')':
                        d -= 1
                        if d == 0: break
                    k += 1
                out.append((toks[i:j], ['(TUPLE)'] + toks[j+1:k])); i = k + 1; continue
        i += 1
    return out

def find_fns(body):
    out = {}; i = 0
    while i < len(body):
        if body[i] == 'fn':
            name = body[i+1]; j = i
            while body[j] != '{': j += 1
            k = match_brace(body, j)
            out[name] = body[j+1:k]; i = k + 1
        else: i += 1
    return out

def fname(t):
    return t[2:] if t.startswith('r#') else t

def split_stmts(toks):
    """split a block body into statements: ('if', (a,b), [stmts]) or ('s', tokens)"""
    out = []; i = 0; cur = []
    while i < len(toks):
        t = toks[i]
        if t == 'if' and not cur and toks[i+1:i+4] == ['let', 'Some', '('] and toks[i+5:i+7] == [')', '=']:
            # `if let Some(v) = EXPR { BODY }` (no else) used for its effect is `EXPR.map(|v| BODY)` with the result dropped
            v = toks[i+4]; j = i + 7
            while toks[j] != '{': j += 1
            k = match_brace(toks, j)
            if k + 1 < len(toks) and toks[k+1] == 'else': raise XErr('unsupported if-let with else: ' + ' '.join(toks[i:i+12]))
            body = toks[j+1:k]
            if body and body[-1] == ';': body = body[:-1]
            out.append(('s', toks[i+7:j] + ['.', 'map', '(', '|', v, '|'] + body + [')']))
            i = k + 1
            if i < len(toks) and toks[i] == ';': i += 1
            continue
        if t == 'if' and not cur:
            # if version . gte ( a , b ) { ... }
            hdr = toks[i+1:i+9]
            if hdr[:4] != ['version', '.', 'gte', '('] or hdr[5] != ',' or hdr[7] != ')':
                raise XErr('unsupported if condition: ' + ' '.join(toks[i:i+12]))
            a, b = int(hdr[4]), int(hdr[6])
            j = i + 9
            k = match_brace(toks, j)
            out.append(('if', (a, b), split_stmts(toks[j+1:k])))
            i = k + 1
            if i < len(toks) and toks[i] == 'else': raise XErr('unsupported else')
            if i < len(toks) and toks[i] == ';': i += 1
            continue
        if t == '{' :
            k = match_brace(toks, i)
            if not cur:   # bare block
                out.extend(split_stmts(toks[i+1:k])); i = k + 1
                if i < len(toks) and toks[i] == ';': i += 1
                continue
            cur.extend(toks[i:k+1]); i = k + 1; continue
        if t in ('(', '['):
            # copy balanced group
            close = {'(': ')', '[': ']'}[t]; d = 0; j = i
            while True:
                if toks[j] == t: d += 1
                elif toks[j] == close:
                    d -= 1
                    if d == 0: break
                j += 1
            cur.extend(toks[i:j+1]); i = j + 1; continue
        if t == ';':
            if cur: out.append(('s', cur)); cur = []
            i += 1; continue
        cur.append(t); i += 1
    if cur: out.append(('s', cur))
    return out

def walk(stmts, gates=()):
    for st in stmts:
        if st[0] == 'if':
            yield from walk(st[2], gates + (st[1],))
        else:
            yield gates, st[1]

def J(t):
    s = ' '.join(t)
    # rustfmt wraps long closures in braces: `|x| { e }` == `|x| e`
    while True:
        n = re.sub(r'\| (\w+) \| \{ ([^{};]*) \}', r'| \1 | \2', s)
        n = re.sub(r' , \)', ' )', n)          # trailing commas in calls
        if n == s: return s
        s = n

# ---------- per function extractors: return list of entries / raise XErr ----------
def x_read_push(body):
    ents = []; validity = False; ok = False
    for gates, t in walk(split_stmts(body)):
        s = J(t)
        m = re.fullmatch(r'r \. read_(u8|i8) \( \) \. map \( \| x \| self \. (\S+?)( \. as_mut \( \) \. unwrap \( \))? \. push \( Some \( x \) \) \) \?', s) \
         or re.fullmatch(r'r \. read_(u16|u32|i32|f32) :: < BE > \( \) \. map \( \| x \| self \. (\S+?)( \. as_mut \( \) \. unwrap \( \))? \. push \( Some \( x \) \) \) \?', s)
        if m: ents.append(dict(f=fname(m.group(2)), ty=m.group(1), gates=list(gates), opt=bool(m.group(3)))); continue
        m = re.fullmatch(r'self \. (\S+?)( \. as_mut \( \) \. unwrap \( \))? \. read_push \( r , version \) \?', s)
        if m: ents.append(dict(f=fname(m.group(1)), ty='sub', gates=list(gates), opt=bool(m.group(2)))); continue
        if s == 'self . validity . as_mut ( ) . map ( | v | v . push ( true ) )' and not gates: validity = True; continue
        if s == 'Ok ( ( ) )' and not gates: ok = True; continue
        raise XErr('read_push: unsupported statement: ' + s)
    if not ok: raise XErr('read_push: no Ok(())')
    return dict(entries=ents, validity=validity)

def x_push_null(body):
    ents = []; validity = 0
    for gates, t in walk(split_stmts(body)):
        s = J(t)
        if s == 'let len = self . len ( )' and not gates: validity |= 1; continue
        if s == 'self . validity . get_or_insert_with ( || MutableBitmap :: from_len_set ( len ) ) . push ( false )' and not gates: validity |= 2; continue
        m = re.fullmatch(r'self \. (\S+?)( \. as_mut \( \) \. unwrap \( \))? \. push_null \( (version)? ?\)', s)
        if m: ents.append(dict(f=fname(m.group(1)), ty='sub' if m.group(3) else 'prim', gates=list(gates), opt=bool(m.group(2)))); continue
        raise XErr('push_null: unsupported statement: ' + s)
    if validity not in (0, 3): raise XErr('push_null: partial validity idiom')
    return dict(entries=ents, validity=validity == 3)

def struct_init_fields(toks):
    """tokens of `Self { a: e, b: e }` / `transpose::X { ... }` / `Self( e, e )` -> list of (name|idx, expr tokens)"""
    # find first '{' or '(' after Self / path
    i = 0
    while toks[i] not in ('{', '('): i += 1
    opener = toks[i]; close = '}' if opener == '{' else ')'
    d = 0; j = i
    depth_tok = {'{': '}', '(': ')', '[': ']'}
    stack = []
    items = []; cur = []
    for k in range(i, len(toks)):
        t = toks[k]
        if t in depth_tok: stack.append(depth_tok[t])
        elif stack and t == stack[-1]:
            stack.pop()
            if not stack:
                if cur: items.append(cur)
                break
        if len(stack) == 1 and t == ',' :
            if cur: items.append(cur); cur = []
            continue
        if not (len(stack) == 1 and k == i): cur.append(t)
    out = []
    for n, it in enumerate(items):
        if opener == '{':
            if len(it) == 1 and re.fullmatch(r'[A-Za-z_]\w*', it[0]): out.append((fname(it[0]), [it[0]])); continue  # field-init shorthand `x` = `x: x`
            if len(it) < 3 or it[1] != ':': raise XErr('struct init: bad field: ' + J(it))
            out.append((fname(it[0]), it[2:]))
        else:
            out.append((str(n), it))
    return out

def x_with_capacity(body):
    ents = []; validity = None
    for name, e in struct_init_fields(body):
        s = J(e)
        if name == 'validity':
            if s == 'None': validity = 'none'
            else:
                m = re.fullmatch(r'version \. lt \( (\d+) , (\d+) \) \. then \( \|\| MutableBitmap :: with_capacity \( capacity \) \)', s)
                # `!version.gte(a, b)` is how `Version::lt(a, b)` is defined
                if not m: m = re.fullmatch(r'\( ! version \. gte \( (\d+) , (\d+) \) \) \. then \( \|\| MutableBitmap :: with_capacity \( capacity \) \)', s)
                if not m: raise XErr('with_capacity: validity: ' + s)
                validity = ('eager_lt', int(m.group(1)), int(m.group(2)))
            continue
        m = re.fullmatch(r'MutablePrimitiveArray :: < (\w+) > :: with_capacity \( capacity \)', s)
        if m: ents.append(dict(f=name, ty=m.group(1), gates=[], opt=False)); continue
        m = re.fullmatch(r'(\w+) :: with_capacity \( capacity , version \)', s)
        if m: ents.append(dict(f=name, ty='sub', sub=m.group(1), gates=[], opt=False)); continue
        m = re.fullmatch(r'version \. gte \( (\d+) , (\d+) \) \. then \( \|\| MutablePrimitiveArray :: < (\w+) > :: with_capacity \( capacity \) \)', s)
        if m: ents.append(dict(f=name, ty=m.group(3), gates=[(int(m.group(1)), int(m.group(2)))], opt=True)); continue
        m = re.fullmatch(r'version \. gte \( (\d+) , (\d+) \) \. then \( \|\| (\w+) :: with_capacity \( capacity , version \) \)', s)
        if m: ents.append(dict(f=name, ty='sub', sub=m.group(3), gates=[(int(m.group(1)), int(m.group(2)))], opt=True)); continue
        raise XErr('with_capacity: unsupported initialiser for %s: %s' % (name, s))
    return dict(entries=ents, validity=validity)

def x_transpose(body):
    ents = []
    for name, e in struct_init_fields(body):
        s = J(e)
        m = re.fullmatch(r'self \. (\S+) \. values \( \) \[ i \]', s)
        if m: ents.append(dict(dst=name, src=fname(m.group(1)), kind='prim', opt=False)); continue
        m = re.fullmatch(r'self \. (\S+) \. transpose_one \( i , version \)', s)
        if m: ents.append(dict(dst=name, src=fname(m.group(1)), kind='sub', opt=False)); continue
        m = re.fullmatch(r'self \. (\S+) \. as_ref \( \) \. map \( \| x \| x \. values \( \) \[ i \] \)', s)
        if m: ents.append(dict(dst=name, src=fname(m.group(1)), kind='prim', opt=True)); continue
        m = re.fullmatch(r'self \. (\S+) \. as_ref \( \) \. map \( \| x \| x \. transpose_one \( i , version \) \)', s)
        if m: ents.append(dict(dst=name, src=fname(m.group(1)), kind='sub', opt=True)); continue
        raise XErr('transpose_one: unsupported mapping for %s: %s' % (name, s))
    return dict(entries=ents)

def x_from_mutable(body):
    ents = []; validity = False
    for name, e in struct_init_fields(body):
        s = J(e)
        if name == 'validity':
            if s != 'x . validity . map ( | v | v . into ( ) )': raise XErr('from: validity: ' + s)
            validity = True; continue
        m = re.fullmatch(r'x \. (\S+) \. into \( \)', s)
        if m: ents.append(dict(dst=name, src=fname(m.group(1)), opt=False)); continue
        m = re.fullmatch(r'x \. (\S+) \. map \( \| x \| x \. into \( \) \)', s)
        if m: ents.append(dict(dst=name, src=fname(m.group(1)), opt=True)); continue
        raise XErr('from(mutable): unsupported mapping for %s: %s' % (name, s))
    return dict(entries=ents, validity=validity)

def x_write(body):
    ents = []; ok = False
    for gates, t in walk(split_stmts(body)):
        s = J(t)
        m = re.fullmatch(r'w \. write_(u8|i8) \( self \. (\S+?)( \. as_ref \( \) \. unwrap \( \))? \. value \( i \) \) \?', s) \
         or re.fullmatch(r'w \. write_(u16|u32|i32|f32) :: < BE > \( self \. (\S+?)( \. as_ref \( \) \. unwrap \( \))? \. value \( i \) \) \?', s)
        if m: ents.append(dict(f=fname(m.group(2)), ty=m.group(1), gates=list(gates), opt=bool(m.group(3)))); continue
        m = re.fullmatch(r'self \. (\S+?)( \. as_ref \( \) \. unwrap \( \))? \. write \( w , version , i \) \?', s)
        if m: ents.append(dict(f=fname(m.group(1)), ty='sub', gates=list(gates), opt=bool(m.group(2)))); continue
        if s == 'Ok ( ( ) )' and not gates: ok = True; continue
        raise XErr('write: unsupported statement: ' + s)
    if not ok: raise XErr('write: no Ok(())')
    return dict(entries=ents)

def x_size(body):
    ents = []; init = ret = False
    for gates, t in walk(split_stmts(body)):
        s = J(t)
        if s == 'let mut size = 0 usize' or s == 'let mut size = 0usize': init = True; continue
        m = re.fullmatch(r'size \+= size_of :: < (\w+) > \( \)', s)
        if m: ents.append(dict(ty=m.group(1), gates=list(gates))); continue
        m = re.fullmatch(r'size \+= (\w+) :: size \( version \)', s)
        if m: ents.append(dict(ty='sub', sub=m.group(1), gates=list(gates))); continue
        if s == 'size' and not gates: ret = True; continue
        raise XErr('size: unsupported statement: ' + s)
    if not (init and ret): raise XErr('size: missing init/return')
    return dict(entries=ents)

def x_data_type(body):
    ents = []; init = ret = False
    for gates, t in walk(split_stmts(body)):
        s = J(t)
        if s == 'let mut fields = vec ! [ ]': init = True; continue
        m = re.fullmatch(r'fields \. push \( Field :: new \( "([^"]*)" , DataType :: (\w+) , false \) \)', s)
        if m:
            if m.group(2) not in ARROW_T: raise XErr('data_type: unknown Arrow type ' + m.group(2))
            ents.append(dict(name=m.group(1), ty=ARROW_T[m.group(2)], gates=list(gates))); continue
        m = re.fullmatch(r'fields \. push \( Field :: new \( "([^"]*)" , (\w+) :: data_type \( version \) , false \) \)', s)
        if m: ents.append(dict(name=m.group(1), ty='sub', sub=m.group(2), gates=list(gates))); continue
        if s == 'DataType :: Struct ( fields )' and not gates: ret = True; continue
        raise XErr('data_type: unsupported statement: ' + s)
    if not (init and ret): raise XErr('data_type: missing init/return')
    return dict(entries=ents)

def x_into(body):
    ents = []; init = False; validity = None
    for gates, t in walk(split_stmts(body)):
        s = J(t)
        if s == 'let mut values = vec ! [ ]': init = True; continue
        m = re.fullmatch(r'values \. push \( self \. (\S+?)( \. unwrap \( \))?( \. into_struct_array \( version \))? \. boxed \( \) \)', s)
        if m: ents.append(dict(f=fname(m.group(1)), kind='sub' if m.group(3) else 'prim', gates=list(gates), opt=bool(m.group(2)))); continue
        m = re.fullmatch(r'StructArray :: new \( Self :: data_type \( version \) , values , (self \. validity|None) \)', s)
        if m and not gates: validity = (m.group(1) != 'None'); continue
        raise XErr('into_struct_array: unsupported statement: ' + s)
    if not init or validity is None: raise XErr('into_struct_array: missing init/return')
    return dict(entries=ents, validity=validity)

def x_from_arr(body):
    stmts = split_stmts(body)
    if J(stmts[0][1]) != 'let ( _ , values , validity ) = array . into_data ( )': raise XErr('from_struct_array: header: ' + J(stmts[0][1]))
    if len(stmts) != 2: raise XErr('from_struct_array: unexpected statements')
    ents = []; validity = False
    for name, e in struct_init_fields(stmts[1][1]):
        s = J(e)
        if name == 'validity':
            if s != 'validity': raise XErr('from_struct_array: validity: ' + s)
            validity = True; continue
        m = re.fullmatch(r'values \[ (\d+) \] \. as_any \( \) \. downcast_ref :: < PrimitiveArray < (\w+) > > \( \) \. unwrap \( \) \. clone \( \)', s)
        if m: ents.append(dict(f=name, idx=int(m.group(1)), ty=m.group(2), opt=False)); continue
        m = re.fullmatch(r'(\w+) :: from_struct_array \( values \[ (\d+) \] \. as_any \( \) \. downcast_ref :: < StructArray > \( \) \. unwrap \( \) \. clone \( \) , version \)', s)
        if m: ents.append(dict(f=name, idx=int(m.group(2)), ty='sub', sub=m.group(1), opt=False)); continue
        s = s.replace('values . first ( )', 'values . get ( 0 )')  # `first()` is `get(0)`
        m = re.fullmatch(r'values \. get \( (\d+) \) \. map \( \| x \| x \. as_any \( \) \. downcast_ref :: < PrimitiveArray < (\w+) > > \( \) \. unwrap \( \) \. clone \( \) \)', s)
        if m: ents.append(dict(f=name, idx=int(m.group(1)), ty=m.group(2), opt=True)); continue
        m = re.fullmatch(r'values \. get \( (\d+) \) \. map \( \| x \| (\w+) :: from_struct_array \( x \. as_any \( \) \. downcast_ref :: < StructArray > \( \) \. unwrap \( \) \. clone \( \) , version \) \)', s)
        if m: ents.append(dict(f=name, idx=int(m.group(1)), ty='sub', sub=m.group(2), opt=True)); continue
        raise XErr('from_struct_array: unsupported mapping for %s: %s' % (name, s))
    return dict(entries=ents, validity=validity)

def x_len(body):
    s = J(body)
    m = re.fullmatch(r'self \. (\S+) \. len \( \)', s)
    if m: return dict(field=fname(m.group(1)))
    if s.startswith('self . validity . as_ref ( ) . map ( | v | v . len ( ) ) . unwrap_or_else'): return dict(field='validity|latest_finalized_frame', special='End')
    if s == 'if let Some ( v ) = self . validity . as_ref ( ) { v . len ( ) } else { self . latest_finalized_frame . as_ref ( ) . unwrap ( ) . len ( ) }': return dict(field='validity|latest_finalized_frame', special='End')
    raise XErr('len: unsupported: ' + s)

def x_struct_def(body, kind):
    ents = []; validity = False
    if body and body[0] == '(TUPLE)':
        items = J(body[1:]).split(' , ')
        for n, it in enumerate([i for i in items if i.strip()]):
            m = re.fullmatch(r'pub (?:Mutable)?PrimitiveArray < (\w+) >,?', it.strip().rstrip(',').strip())
            if not m:
                m = re.fullmatch(r'pub (\w+)', it.strip())
                if m and m.group(1) in PRIMS: ents.append(dict(f=str(n), ty=m.group(1), opt=False)); continue
                raise XErr('tuple struct def: ' + it)
            ents.append(dict(f=str(n), ty=m.group(1), opt=False))
        return dict(entries=ents, validity=False)
    # strip attributes/doc: tokenizer removed comments; attributes '# [ ... ]' may appear
    s = J(body)
    s = re.sub(r'# \[ [^\]]* \] ', '', s)
    for it in [i.strip() for i in s.split(' , ') if i.strip()]:
        it = it.rstrip(',').strip()
        m = re.fullmatch(r'pub (\S+) : (.*)', it)
        if not m: raise XErr('struct def: bad field: ' + it)
        name, ty = fname(m.group(1)), m.group(2)
        if name == 'validity': validity = True; continue
        opt = False
        mo = re.fullmatch(r'Option < (.*) >', ty)
        if mo: opt = True; ty = mo.group(1)
        mp = re.fullmatch(r'(?:Mutable)?PrimitiveArray < (\w+) >', ty)
        if mp: ents.append(dict(f=name, ty=mp.group(1), opt=opt)); continue
        if ty in PRIMS: ents.append(dict(f=name, ty=ty, opt=opt)); continue
        if ty in STRUCTS: ents.append(dict(f=name, ty='sub', sub=ty, opt=opt)); continue
        raise XErr('struct def: unsupported type for %s: %s' % (name, ty))
    return dict(entries=ents, validity=validity)

def load(path):
    return tokenize(open(REPO + '/' + path).read())

def extract():
    out = {s: {} for s in STRUCTS}
    files = {'mut': 'src/frame/mutable.rs', 'imm': 'src/frame/immutable/mod.rs', 'slp': 'src/frame/immutable/slippi.rs', 'arw': 'src/frame/immutable/peppi.rs', 'tr': 'src/frame/transpose.rs'}
    for key, path in files.items():
        toks = load(path)
        for hdr, body in find_impls(toks):
            h = J(hdr)
            m = re.fullmatch(r'struct (\w+)', h)
            if m and m.group(1) in STRUCTS:
                out[m.group(1)]['def_' + key] = x_struct_def(body, key); continue
            m = re.fullmatch(r'impl (\w+)', h)
            if m and m.group(1) in STRUCTS:
                S = m.group(1); fns = find_fns(body)
                table = {'mut': {'with_capacity': x_with_capacity, 'len': x_len, 'push_null': x_push_null, 'read_push': x_read_push, 'transpose_one': x_transpose},
                         'imm': {'transpose_one': x_transpose}, 'slp': {'write': x_write, 'size': x_size},
                         'arw': {'data_type': x_data_type, 'into_struct_array': x_into, 'from_struct_array': x_from_arr}}[key]
                for fn, body2 in fns.items():
                    if fn not in table: raise XErr('%s: unexpected fn %s::%s' % (path, S, fn))
                    try: out[S][key + '.' + fn] = table[fn](body2)
                    except XErr as e: raise XErr('%s %s::%s: %s' % (path, S, fn, e))
                continue
            m = re.fullmatch(r'impl From < mutable :: (\w+) > for (\w+)', h)
            if m and m.group(1) in STRUCTS:
                fns = find_fns(body); out[m.group(1)]['imm.from'] = x_from_mutable(fns['from']); continue
    return out

if __name__ == '__main__':
    try:
        ex = extract()
    except XErr as e:
        print('EXTRACTION FAILED:', e); sys.exit(3)
    # the generator's own field table (gen/resources/frames.json), kept next to the views of the generated code
    try:
        fj = json.load(open(REPO + '/gen/resources/frames.json'))
        table = {}
        for S, d in fj.items():
            ents = []
            for i, f in enumerate(d['fields']):
                ver = f.get('version')
                ents.append(dict(name=f.get('name', str(i)), ty=f['type'], version=[int(x) for x in ver.split('.')] if ver else None))
            table[S] = ents
        ex['_frames_json'] = table
    except (OSError, ValueError, KeyError) as e:
        print('EXTRACTION FAILED: frames.json:', e); sys.exit(3)
    json.dump(ex, open(sys.argv[2] if len(sys.argv) > 2 else 'extracted.json', 'w'), indent=1)
    print('extracted', sum(len(ex[S]) for S in STRUCTS), 'views of', len(STRUCTS), 'structs')
