import json,os,subprocess,sys,glob
rnd=sys.argv[1]; ids=sys.argv[2:]
props={json.loads(l)['id']:json.loads(l) for l in open('/verif/properties.jsonl')}
for pid in ids:
    d=f'/tmp/mut{rnd}-{pid}'
    if not os.path.exists(d):
        subprocess.run(f'git -C /repo worktree add --detach {d} HEAD',shell=True,check=True,capture_output=True)
    p=props[pid]
    open(d+'/PROPERTY.txt','w').write(f"{pid}: {p['title']}\n\n{p['statement']}\n\nWhere the mechanism lives (hints):\n"+json.dumps(p['anchors'],indent=1)+"\n")
    av=[]
    for m in sorted(glob.glob(f'/verif/seeded/*-{pid}/meta.json')):
        j=json.load(open(m)); av.append('- '+j['needs_to_manifest'])
    # S-C01.. round 1 have table rows in DESIGN.md only; meta has needs_to_manifest too
    open(d+'/AVOID.txt','w').write("Changes already collected for this property in earlier rounds (what each needed in order to manifest). Produce something that is NOT a variation of these — a different site, a different mechanism, a different trigger:\n"+'\n'.join(av)+'\n')
    pr=open('/verif/bin/agent_prompt.txt').read().replace('DIR',d).replace('/tmp/mut-*','/tmp/mut*')
    pr+=f"\n\nAdditional constraint: read {d}/AVOID.txt first. It lists the triggers of changes that were already collected for this property; yours must use a different site/mechanism/trigger. Think beyond the bytes of the input as well: how the library is *called* may be the trigger (reader type and position, short reads, Read/Seek implementations, option combinations, calling sequences, values of in-memory structs built by a user rather than by the reader). Prefer changes in hand-written code paths that interact (reader state machine, writer size computation, options, stream wrappers, version gates, Arrow/tar glue) and triggers that are rare in random testing (exact boundary values, specific version windows, specific port layouts, particular event orders, multi-call sequences).\n"
    open(d+'/PROMPT.txt','w').write(pr)
    print(d)
