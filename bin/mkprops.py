#!/usr/bin/env python3
"""Development-time tool (NOT run by the checks): (re)generate lean/Peppi/Props/<ID>.lean and
lean/Audit/<ID>.lean from bin/propmap.json.

For every headline theorem it copies the *statement* (binders and type) from the lemma file
where the theorem is proved and re-states it in Props/<ID>.lean, proved by `exact` from the
lemma.  The property files therefore hold the statements separately from the proofs: weakening a
lemma's statement in Lemmas/ makes the Props file fail to compile."""
import json, os, re, sys
ROOT = os.path.dirname(os.path.dirname(os.path.abspath(__file__)))
LEAN = os.path.join(ROOT, 'lean')
PM = json.load(open(os.path.join(ROOT, 'bin', 'propmap.json')))

def lean_files():
    for d, _, fs in os.walk(os.path.join(LEAN, 'Peppi')):
        if '/Props' in d: continue
        for f in fs:
            if f.endswith('.lean'): yield os.path.join(d, f)

SRC = {p: open(p).read() for p in lean_files()}

def find(name):
    pat = re.compile(r'^[ \t]*(?:private |protected )?theorem ' + re.escape(name) + r'(?=[\s({\[:])', re.M)
    hits = [(p, m.start() + len(m.group(0)) - len(m.group(0).lstrip())) for p, s in SRC.items() for m in [pat.search(s)] if m]
    if len(hits) != 1: raise SystemExit('theorem %s: %d definitions found' % (name, len(hits)))
    return hits[0]

def header(src, start):
    """text from `theorem` up to (not including) the top-level `:=`"""
    depth = 0; i = start
    while i < len(src):
        c = src[i]
        if c in '([{⟨': depth += 1
        elif c in ')]}⟩': depth -= 1
        elif depth == 0 and src.startswith(':=', i):
            if re.search(r'\blet \S+ $', src[start:i]): i += 2; continue
            return src[start:i]
        elif depth == 0 and src[i:i+2] == '\n|': return src[start:i]
        i += 1
    raise SystemExit('no := found')

def binders(hdr):
    """names of explicit binders before the top-level colon"""
    depth = 0; i = 0; names = []; groups = []
    # skip `theorem NAME`
    m = re.match(r'(?:private |protected )?theorem \S+', hdr); i = m.end()
    while i < len(hdr):
        c = hdr[i]
        if c in '([{⟨':
            if depth == 0: gstart = i
            depth += 1
        elif c in ')]}⟩':
            depth -= 1
            if depth == 0: groups.append(hdr[gstart:i+1])
        elif c == ':' and depth == 0 and hdr[i:i+2] != ':=': break
        i += 1
    for g in groups:
        if g[0] != '(': continue
        inner = g[1:-1]
        for n in inner.split(':')[0].split(): names.append(n)
    return names

def module_of(path):
    rel = os.path.relpath(path, LEAN)[:-5]
    return rel.replace('/', '.')

def section_vars(src, start):
    """`variable (x : T)` lines in force at `start` (crude: all variable lines above in the file, explicit binders only)"""
    out = []
    for m in re.finditer(r'^variable (.*)$', src[:start], re.M):
        out.append(m.group(1))
    return out

def opens(src, start):
    out = []
    for m in re.finditer(r'^open (.*)$', src[:start], re.M):
        if ' in' in m.group(1): continue
        out.append(m.group(1).strip())
    return out

os.makedirs(os.path.join(LEAN, 'Peppi', 'Props'), exist_ok=True)
os.makedirs(os.path.join(LEAN, 'Audit'), exist_ok=True)
for pid, spec in sorted(PM.items()):
    mods = []; body = []; names = []
    for th in spec['theorems']:
        path, start = find(th)
        src = SRC[path]; hdr = header(src, start).rstrip()
        mod = module_of(path)
        if mod not in mods: mods.append(mod)
        ns = re.findall(r'^namespace (\S+)', src[:start], re.M)
        ends = re.findall(r'^end (\S+)', src[:start], re.M)
        cur = [n for n in ns]
        for e in ends:
            if e in cur: cur.remove(e)
        full = '.'.join(cur + [th]) if cur else th
        args = binders(hdr)
        svars = section_vars(src, start)
        pre = ''
        # section variables that the statement mentions become explicit leading binders
        lead = []
        for v in svars:
            for g in re.findall(r'\(([^()]*:[^()]*)\)', v):
                nm = g.split(':')[0].split()
                if any(re.search(r'\b' + re.escape(n) + r'\b', hdr) for n in nm):
                    lead.append('(' + g + ')')
        hdr2 = re.sub(r'^(?:private |protected )?theorem \S+', 'theorem ' + th.replace('.', '_'), hdr, count=1)
        if lead:
            hdr2 = hdr2.replace('theorem ' + th.replace('.', '_'), 'theorem ' + th.replace('.', '_') + ' ' + ' '.join(lead), 1)
            args = [n for g in lead for n in g[1:-1].split(':')[0].split()] + args
        op = opens(src, start)
        op = [o for o in op if o != 'Peppi']
        if len(cur) > 1: op.append('.'.join(cur))   # theorem stated inside a nested namespace: its names must resolve here too
        body.append('/- from `%s` -/' % mod)
        if op: body.append('open %s in' % ' '.join(dict.fromkeys(' '.join(op).split())))
        body.append(hdr2 + ' :=\n  _root_.%s %s\n' % (full, ' '.join(args)))
        names.append('Peppi.Props.%s.%s' % (pid, th.replace('.', '_')))
    for ex in spec.get('extra', []):
        body.append(ex['text']); names.append('Peppi.Props.%s.%s' % (pid, ex['name']))
    out = ['/- Property %s — %s' % (pid, spec['title']), '',
           '   Statements of the machine-checked theorems this property\'s check relies on.  Each statement is',
           '   spelled out here and proved from the lemma of the same name under `Peppi/` (generated once by',
           '   `bin/mkprops.py`, then kept as source).  What is proved and what is partial: DESIGN.md §4. -/']
    out += ['import ' + m for m in mods]
    out += ['set_option linter.unusedVariables false', 'namespace Peppi.Props.%s' % pid, ''] + body + ['end Peppi.Props.%s' % pid, '']
    open(os.path.join(LEAN, 'Peppi', 'Props', pid + '.lean'), 'w').write('\n'.join(out))
    aud = ['import Peppi.Props.%s' % pid] + ['#print axioms %s' % n for n in names]
    open(os.path.join(LEAN, 'Audit', pid + '.lean'), 'w').write('\n'.join(aud) + '\n')
    print(pid, len(names), 'theorems,', len(mods), 'modules')
