#!/usr/bin/env python3
"""Development-time tool: refresh the level texts of MANIFEST.json from bin/propspec.py (proved / partial / externals)."""
import json, os, sys
ROOT = os.path.dirname(os.path.dirname(os.path.abspath(__file__)))
sys.path.insert(0, os.path.join(ROOT, 'bin'))
from propspec import PROPS
TIE = ('The model is tied to /repo on every run by the translator (generated frame code -> Extracted.lean, premises re-decided by the kernel) and by a '
       'differential correspondence run of the compiled model against the real library; the property is also evaluated directly on the real code by '
       'independent oracles, which is the search for a failing input when a proof obligation or the correspondence breaks.')
p = os.path.join(ROOT, 'MANIFEST.json'); m = json.load(open(p))
for c in m['checks']:
    P = PROPS[c['property_id']]
    t = 'Machine-checked Lean 4 theorems about a model of the code, for all inputs the property quantifies over: ' + P['proved'] + '.'
    if P.get('partial'): t += ' Partial: ' + P['partial'] + '.'
    c['level_claimed']['text'] = t + ' ' + TIE
    ext = P.get('externals') or []
    c['level_note'] = ('Trusted: Lean 4.33 kernel; axioms propext, Classical.choice, Quot.sound only (audited per theorem on every run; no native_decide/bv_decide/sorry); extract.py; '
                       'the correspondence harness (differential testing bounded by its generators).' + (' Externals modelled as parameters: ' + ', '.join(ext) + '.' if ext else ''))
json.dump(m, open(p, 'w'), indent=1)
print('MANIFEST.json refreshed')
